"""Determinism envelope and import of the code under test.

Every check goes through `bootstrap()` first:
  * re-executes the interpreter with PYTHONHASHSEED=0 (set iteration order of
    Node objects decides the send order inside pysyncobj, hence the schedule);
  * puts /repo first on sys.path and asserts pysyncobj is imported from there,
    so the current working tree is what is checked (pure Python: no build);
  * enables the (currently unused) hook guard PYSYNCOBJ_VERIF=1.
"""
import os
import sys

VERIF = os.path.dirname(os.path.dirname(os.path.abspath(__file__)))
REPO = os.environ.get('VERIF_REPO', '/repo')
DEPS = os.path.join(VERIF, '.deps')
OUT = os.environ.get('VERIF_OUT', VERIF)    # evidence/replays root (redirected for mutant runs)


def bootstrap():
    if os.environ.get('PYTHONHASHSEED') != '0':
        env = dict(os.environ)
        env['PYTHONHASHSEED'] = '0'
        os.execve(sys.executable, [sys.executable] + sys.argv, env)
    os.environ.setdefault('PYSYNCOBJ_VERIF', '1')
    for p in (DEPS, REPO):
        if p in sys.path:
            sys.path.remove(p)
    sys.path.insert(0, DEPS)
    sys.path.insert(0, REPO)
    sys.dont_write_bytecode = True
    import logging
    logging.disable(logging.CRITICAL)
    import pysyncobj
    f = os.path.realpath(pysyncobj.__file__)
    if not f.startswith(os.path.realpath(REPO) + os.sep):
        sys.stderr.write('HARNESS-ERROR: pysyncobj imported from %s, not %s\n' % (f, REPO))
        sys.exit(2)


def seed():
    try:
        return int(os.environ.get('VERIF_SEED', '1'))
    except ValueError:
        return 1


def tier(default='quick'):
    t = os.environ.get('VERIF_TIER', default)
    return t if t in ('quick', 'thorough') else default


_TMP = None


def tmpdir():
    """Per-process scratch directory (in /dev/shm when present), removed at exit."""
    global _TMP
    if _TMP is None or not os.path.isdir(_TMP) or _TMP_PID != os.getpid():
        _make_tmp()
    return _TMP


def _make_tmp():
    global _TMP, _TMP_PID
    import tempfile, atexit, shutil
    base = os.environ.get('VERIF_TMP')
    if not base:
        base = '/dev/shm' if os.path.isdir('/dev/shm') and os.access('/dev/shm', os.W_OK) else tempfile.gettempdir()
    _TMP = tempfile.mkdtemp(prefix='pvf-', dir=base)
    _TMP_PID = os.getpid()
    pid = _TMP_PID
    path = _TMP

    def _rm():
        if os.getpid() == pid:
            shutil.rmtree(path, ignore_errors=True)
    atexit.register(_rm)


_TMP_PID = None
