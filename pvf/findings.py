"""Known findings: genuine defects that are recorded instead of repaired.

/verif/known_findings.json is committed and never written at run time.
  open : [{"property": id, "signature": str, "what": str}]   -> suppresses exactly that signature
  fixed: [{"property": id, "commit": sha, "what": str, "entry": "fixed: property=<id> <commit> <what failed>"}]
         -> suppresses nothing (documentation + regression replays).
A signature is specific (monitor + proximate cause), so a different violation
of the same property is still reported.
"""
import json
import os
import fnmatch

from . import env

_PATH = os.path.join(env.VERIF, 'known_findings.json')
_cache = None


def _load():
    global _cache
    if _cache is None:
        try:
            with open(_PATH) as f:
                _cache = json.load(f)
        except FileNotFoundError:
            _cache = {'open': [], 'fixed': []}
    return _cache


def open_findings(prop):
    return [e for e in _load().get('open', []) if e['property'] == prop]


def match(prop, signature):
    """Return the open finding entry that lists this signature, or None."""
    for e in open_findings(prop):
        if e['signature'] == signature or fnmatch.fnmatchcase(signature, e['signature']):
            return e
    return None
