"""atheris driver: python -m pvf.fuzz.c13_fuzz <libFuzzer args>  (run from /verif)"""
import os
import sys

VERIF = os.path.dirname(os.path.dirname(os.path.dirname(os.path.abspath(__file__))))
if os.environ.get('PYTHONHASHSEED') != '0':
    os.execve(sys.executable, [sys.executable, '-m', 'pvf.fuzz.c13_fuzz'] + sys.argv[1:], dict(os.environ, PYTHONHASHSEED='0'))
REPO = os.environ.get('VERIF_REPO', '/repo')
sys.path.insert(0, os.path.join(VERIF, '.deps'))
sys.path.insert(0, VERIF)
sys.path.insert(0, REPO)
sys.dont_write_bytecode = True
import logging
logging.disable(logging.CRITICAL)
import atheris

with atheris.instrument_imports(include=['pysyncobj']):
    import pysyncobj
    import pysyncobj.tcp_connection  # noqa
assert os.path.realpath(pysyncobj.__file__).startswith(os.path.realpath(REPO) + os.sep), pysyncobj.__file__
os.environ['PYTHONHASHSEED'] = '0'
from pvf.fuzz import c13_target


def TestOneInput(data):
    c13_target.run(data)


if __name__ == '__main__':
    atheris.Setup(sys.argv, TestOneInput)
    atheris.Fuzz()
