"""C01 - replicas apply one common command sequence (state-machine safety)."""
from ..sim import cluster, gen, simprop, core
from .. import runner

PROP = 'C01'
MANIFEST = {
    'engine': 'E1-sim',
    'level': 'exploration',
    'technique': 'Hypothesis-generated schedules/fault sequences on a deterministic simulator of real SyncObj nodes; reference-model fold oracle after every step',
    'text': 'Generated (configuration, step list) cases drive 2-5 real SyncObj nodes over a simulated network with per-node virtual clocks; after every step each apply event is compared with '
            'the entry first reported committed at that position, executed positions must strictly increase, and every node state must equal the reference fold of the committed prefix at its applied index. '
            'Exploration is the right level: the quantifier is all schedules, which can only be sampled.',
    'note': 'Trusts the network model of pvf/sim/core.py (FIFO per connection generation, prefix loss on break, independent notice) and white-box reads of the log/indices; bounded by <=300 steps, <=5 voters, no memory loss.',
}
LEVEL = 'exploration'
RULE = ('case = (configuration: 2-5 voters, batch mode/size, snapshot chunk size, compaction thresholds, queue size, send cost; step list <=300 of '
        'tick/deliver/break/notice/connect/submit/compact/calm/partition/heal/tickall/flush drawn through a per-case weight profile). '
        'non-trivial = >=2 terms had a leader AND >=2 nodes executed >=3 regular commands AND (a connection break, a log compaction or a snapshot transfer happened); distinct = distinct case digests')
ASSUMPTIONS = ['no node loses its memory (no kill/restart in this property)',
               'messages are pickled per hop as on the wire; Byzantine messages are out of scope',
               'a position counts as committed when any node\'s raftCommitIndex covers it while the entry is in that node\'s log']


def strategy(tier):
    return gen.case_strategy(200 if tier == 'quick' else 300)


def run_case(case):
    cfg = dict(case['cfg'])
    cfg['target'] = [PROP]
    sim = cluster.Sim(cfg)
    try:
        resolved = simprop.run_steps(sim, case)
        classes = simprop.base_classes(sim)
        busy = sum(1 for v in sim.napplied.values() if v >= 3)
        nontrivial = (len(sim.terms_with_leader) >= 2 and busy >= 2 and
                      bool({'connection-break', 'log-compacted', 'snapshot-transfer'} & classes))
        return simprop.result_for(PROP, sim, resolved, nontrivial, classes)
    finally:
        sim.destroy()


def shard(seed, n, tier):
    return simprop.standard_shard(PROP, strategy(tier), run_case, seed, n, tier)


def main(tier, seed, cases=None):
    return simprop.standard_main(PROP, LEVEL, __name__, RULE, ASSUMPTIONS, tier, seed, cases)


def replay(path):
    return runner.replay_file(PROP, path, run_case)
