"""C02 - callback contract: SUCCESS means committed exactly once with that result."""
from ..sim import cluster, gen, simprop, core
from .. import runner

PROP = 'C02'
MANIFEST = {
    'engine': 'E1-sim',
    'level': 'exploration',
    'technique': 'Hypothesis-generated schedules with submissions from leaders/followers; per-submission callback ledger checked against the committed sequence and the reference-model result',
    'text': 'Every submission carries a unique id and a recording callback. After every step: at most one callback per submission; SUCCESS(r) requires the id at exactly one committed position and r equal to the '
            'reference model\'s result there; QUEUE_FULL/MISSING_LEADER/NOT_LEADER/REQUEST_DENIED/DISCARDED ids must never appear in the committed sequence (checked whenever it grows); every id at most once. '
            'Exploration over sampled schedules incl. leader changes between forward/append/reply/commit.',
    'note': 'Sync wrappers are exercised by C19; network model of pvf/sim; "never undone" relies on C04\'s immutability monitor (same run).',
}
LEVEL = 'exploration'
RULE = ('case = (configuration incl. commandsWaitLeader on/off, commandsQueueSize 0/2/100000; step list <=300 with submissions on any node). '
        'non-trivial = case has >=1 SUCCESS and >=1 non-SUCCESS callback, or a leader was elected while >=1 submission was unanswered; distinct = distinct case digests')
ASSUMPTIONS = ['no node loses its memory', 'LEADER_CHANGED or no callback leaves the outcome open (only at-most-once is checked)']


def strategy(tier):
    return gen.case_strategy(200 if tier == 'quick' else 300, profiles=['pipelining', 'mixed', 'faulty', 'elections'])


def run_case(case):
    cfg = dict(case['cfg'])
    cfg['target'] = [PROP]
    sim = cluster.Sim(cfg)
    try:
        resolved = simprop.run_steps(sim, case)
        # closing phase: let in-flight commands settle so late commits of "failed" ids are seen
        if not sim.viol:
            sim.blocked = set()
            for _ in range(60):
                sim.calm_round()
                sim.check(light=True)
                if sim.viol:
                    break
        classes = simprop.base_classes(sim)
        ok = sim.counters.get('cb_SUCCESS', 0)
        bad = sum(sim.counters.get(k, 0) for k in ('cb_QUEUE_FULL', 'cb_MISSING_LEADER', 'cb_DISCARDED', 'cb_NOT_LEADER', 'cb_LEADER_CHANGED', 'cb_REQUEST_DENIED'))
        roles = set(s['role'] for s in sim.subs.values())
        for r in roles:
            classes.add('submitted-on-' + r)
        nontrivial = (ok >= 1 and bad >= 1) or sim.unanswered_at_leader_change
        return simprop.result_for(PROP, sim, resolved, nontrivial, classes)
    finally:
        sim.destroy()


def shard(seed, n, tier):
    return simprop.standard_shard(PROP, strategy(tier), run_case, seed, n, tier)


def main(tier, seed, cases=None):
    return simprop.standard_main(PROP, LEVEL, __name__, RULE, ASSUMPTIONS, tier, seed, cases)


def replay(path):
    return runner.replay_file(PROP, path, run_case)
