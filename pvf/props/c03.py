"""C03 - one leader per term; a new leader already holds all committed commands."""
from ..sim import cluster, gen, simprop, core
from .. import runner

PROP = 'C03'
MANIFEST = {
    'engine': 'E1-sim',
    'level': 'exploration',
    'technique': 'Hypothesis-generated election schedules (independent clocks, delayed/lost votes, partitions) on the deterministic simulator; ghost leader-per-term table and leader-completeness monitor',
    'text': 'Every transition to leader (conf.onStateChanged) is recorded with the node\'s term: a second leader in a term is a violation; at that moment the new leader must hold every position any node has '
            'reported committed (same index and term in its log, or covered by its snapshot). Exploration over sampled election interleavings.',
    'note': 'Network/clock model of pvf/sim; committed set is the ghost table built from commit indices; cluster sizes 2-5; no memory loss.',
}
LEVEL = 'exploration'
RULE = ('case = (configuration, step list <=300), election-heavy profiles (large tick gaps on independent clocks, breaks, partitions/heals, sizes 2-5). '
        'non-trivial = (>=2 terms had a leader OR an election round ended without leader and a later one succeeded) AND >=1 committed command existed when a leader was elected; distinct = distinct case digests')
ASSUMPTIONS = ['no node loses its memory', 'role changes observed through conf.onStateChanged and raftCurrentTerm']


def strategy(tier):
    return gen.case_strategy(200 if tier == 'quick' else 300, profiles=['elections', 'elections', 'faulty', 'mixed'])


def run_case(case):
    cfg = dict(case['cfg'])
    cfg['target'] = [PROP]
    sim = cluster.Sim(cfg)
    try:
        resolved = simprop.run_steps(sim, case)
        classes = simprop.base_classes(sim)
        nontrivial = len(sim.terms_with_leader) >= 2 and sim.counters.get('election_with_committed', 0) >= 1
        if sim.cfg['n'] % 2 == 0:
            classes.add('even-cluster')
        return simprop.result_for(PROP, sim, resolved, nontrivial, classes)
    finally:
        sim.destroy()


def shard(seed, n, tier):
    return simprop.standard_shard(PROP, strategy(tier), run_case, seed, n, tier)


def main(tier, seed, cases=None):
    return simprop.standard_main(PROP, LEVEL, __name__, RULE, ASSUMPTIONS, tier, seed, cases)


def replay(path):
    return runner.replay_file(PROP, path, run_case)
