"""C04 - committed positions are majority-backed and never change; indices only advance."""
from ..sim import cluster, gen, simprop, core
from .. import runner

PROP = 'C04'
MANIFEST = {
    'engine': 'E1-sim',
    'level': 'exploration',
    'technique': 'Hypothesis-generated schedules on the deterministic simulator; invariant monitors over all logs after every step',
    'text': 'After every simulator step: for each position newly covered by any node\'s commit index a strict majority of voters must store that (index, term) (or a snapshot covering it); the entry first reported '
            'committed at a position must equal every later report; committed entries must stay on a majority; commit/applied indices never decrease; Log Matching over all pairs of logs. '
            'Exploration (sampled schedules) is the level this quantifier admits.',
    'note': 'White-box reads of each node\'s journal and indices; network model of pvf/sim/core.py; <=300 steps, <=5 voters, no memory loss.',
}
LEVEL = 'exploration'
RULE = ('case = (configuration, step list <=300) as for C01, profiles biased to pipelining (several append_entries in flight before the first reply is processed). '
        'non-trivial = >=2 append_entries to one follower were in flight before its first reply was processed AND a commit index advanced afterwards; distinct = distinct case digests')
ASSUMPTIONS = ['no node loses its memory', 'majority evaluated against the static voter set, at the step the commit index advances and continuously afterwards',
               'a snapshot-covered position (log starts after p and applied index >= p) counts as stored']


def strategy(tier):
    return gen.case_strategy(200 if tier == 'quick' else 300, profiles=['pipelining', 'pipelining', 'mixed', 'faulty', 'compaction', 'elections'])


def run_case(case):
    cfg = dict(case['cfg'])
    cfg['target'] = [PROP]
    sim = cluster.Sim(cfg)
    try:
        resolved = simprop.run_steps(sim, case)
        classes = simprop.base_classes(sim)
        nontrivial = sim.commit_after_pipelining
        return simprop.result_for(PROP, sim, resolved, nontrivial, classes)
    finally:
        sim.destroy()


def shard(seed, n, tier):
    return simprop.standard_shard(PROP, strategy(tier), run_case, seed, n, tier)


def main(tier, seed, cases=None):
    return simprop.standard_main(PROP, LEVEL, __name__, RULE, ASSUMPTIONS, tier, seed, cases)


def replay(path):
    return runner.replay_file(PROP, path, run_case)
