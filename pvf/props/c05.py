"""C05 - after faults stop the cluster converges: one leader, progress, equal replicas."""
from hypothesis import strategies as st

from ..sim import cluster, gen, simprop, core
from .. import runner, findings
from ..runner import Result

PROP = 'C05'
MANIFEST = {
    'engine': 'E1-sim',
    'level': 'exploration',
    'technique': 'Hypothesis-generated fault histories followed by a deterministic quiet phase under the virtual clock; bounded-horizon convergence oracle (one leader, SUCCESS for fresh submissions on every connected node, equal replicas == reference fold)',
    'text': 'Any generated fault history (breaks, partitions, stale leaders, compactions on any node, lagging followers, observers) is followed by a closing phase in which faults stop: partitions are healed (all, or only a '
            'majority while the rest stays isolated), every noticed/unnoticed dead connection is noticed and re-dialled, nodes tick every 20 ms with prompt delivery. Oracle: within 100 x raftMaxTimeout virtual seconds the connected '
            'component has exactly one leader known to all; one command submitted on every connected node (observers too) gets SUCCESS within 20 x raftMaxTimeout; then all connected replicas have the same applied index and a '
            'state equal to the reference fold. The liveness statement becomes a bounded-horizon safety check because the harness owns the clock.',
    'note': 'Bounds (100 and 20 election timeouts) are generous on purpose and reported; election timeouts come from the per-case PRNG; network model of pvf/sim.',
}
LEVEL = 'exploration'
RULE = ('case = (configuration, 0-2 observers, fault history <=250 steps, closing mode all|majority). '
        'non-trivial = the history contained a snapshot transfer, or two nodes reporting leader at the same time (stale leader), or a log compaction on a node that was not leader; distinct = distinct case digests')
ASSUMPTIONS = ['no node loses its memory', 'quiet phase = 20 ms ticks on every node, prompt FIFO delivery, reconnects allowed',
               'bound: one leader within 100 x raftMaxTimeout, SUCCESS within 20 x raftMaxTimeout (virtual time)']

EXTRA = [('rojoin', 2), ('roleave', 1), ('churn', 2)]


def strategy(tier):
    base = gen.case_strategy(150 if tier == 'quick' else 250, profiles=['faulty', 'compaction', 'mixed', 'isolation', 'pipelining'])
    return st.tuples(base, st.integers(0, 2), st.sampled_from(['all', 'all', 'majority']), st.integers(0, 31)).map(
        lambda t: dict(t[0], cfg=dict(t[0]['cfg'], n_ro=t[1]), closing=t[2], mask=t[3]))


def diagnose(sim, comp):
    out = {}
    for n in comp:
        o = sim.nodes[n]
        log = core.log_of(o)
        d = {'state': 'FCL'[o._SyncObj__raftState], 'term': o.raftCurrentTerm, 'commit': o.raftCommitIndex, 'applied': o.raftLastApplied,
             'leader': str(o._getLeader()), 'log': '%d..%d' % (log[0][1], log[-1][1]) if len(log) else 'empty'}
        if o._isLeader():
            d['next'] = dict((str(k)[-6:], v) for k, v in o._SyncObj__raftNextIndex.items())
            d['match'] = dict((str(k)[-6:], v) for k, v in o._SyncObj__raftMatchIndex.items())
        out[n] = d
    return out


def run_case(case):
    cfg = dict(case['cfg'])
    cfg['target'] = [PROP]
    # precondition of the liveness statement: the fallback timeout must comfortably exceed a heartbeat round trip.
    # With the generated 20 ms cost per send a heartbeat round to 4 peers takes ~0.1 s, so leaderFallbackTimeout=0.11
    # makes every leader step down by construction (not a finding); C20 keeps exploring the tight timeouts.
    if cfg.get('fallback', 30.0) < 0.5 or (cfg.get('send_cost', 0) % 3 == 2 and cfg.get('fallback', 30.0) < 2.0):
        cfg['fallback'] = 2.0
    sim = cluster.Sim(cfg)
    stale_leader = [False]
    compact_nonleader = [False]

    def watch():
        if sum(1 for n in sim.live() if sim.nodes[n]._isLeader()) >= 2:
            stale_leader[0] = True
    sim.after_step_hooks.append(watch)
    try:
        resolved = simprop.run_steps(sim, case, EXTRA)
        classes = simprop.base_classes(sim)
        for n in sim.live():
            o = sim.nodes[n]
            log = core.log_of(o)
            if len(log) and log[0][1] > 1 and not o._isLeader():
                compact_nonleader[0] = True
        viol = None
        # ---- closing phase: faults stop
        sim.quiet_config()
        voters = [v for v in sim.voters if v in sim.nodes]
        if case['closing'] == 'majority' and len(voters) >= 3:
            k = (len(voters) - 1) // 2
            isolated = set(sorted(voters, key=lambda v: (case['mask'] >> sim.voters.index(v)) & 1)[:k]) if k else set()
            sim.blocked = set(frozenset((x, y)) for x in isolated for y in sim.voters + sim.ro if y not in isolated)
            for g in sim.net.gens:
                if g.alive and frozenset((g.a, g.b)) in sim.blocked:
                    sim.net.break_(g, 0, 0)
            classes.add('closing-majority-only')
        else:
            isolated = set()
            sim.blocked = set()
        comp = [n for n in sim.live() if n not in isolated]
        rmax = cfg.get('raft_max', 1.4)
        bound1 = int(100 * rmax / 0.02)
        leader = None
        rounds1 = 0
        for rounds1 in range(1, bound1 + 1):
            sim.calm_round()
            sim.check(light=True)
            ls = [n for n in comp if sim.nodes[n]._isLeader()]
            if len(ls) == 1:
                lnode = sim.node_obj(ls[0])
                if all(sim.nodes[n]._getLeader() == lnode for n in comp):
                    leader = ls[0]
                    break
        if leader is None:
            viol = ('no-single-leader', 'after %d quiet rounds (%.0f virtual s) the connected component %r has leaders %r; %r; escaped %r' % (
                rounds1, rounds1 * 0.02, comp, [n for n in comp if sim.nodes[n]._isLeader()], diagnose(sim, comp), sim.escaped[-2:]))
        if viol is None:
            # catch-up (by entries or snapshot) must finish within the same kind of bound; submitting on a replica that
            # is in the middle of a snapshot install can lose the callback (open outcome by C02), so submissions come after
            bound_c = int(50 * rmax / 0.02)
            for _ in range(bound_c):
                sim.calm_round()
                sim.check(light=True)
                top = max(sim.nodes[n].raftCommitIndex for n in comp)
                if all(sim.nodes[n].raftLastApplied >= top for n in comp) and top >= sim.nodes[leader].raftLastApplied:
                    break
            applied = dict((n, sim.nodes[n].raftLastApplied) for n in comp)
            if len(set(applied.values())) != 1:
                viol = ('replica-stays-behind', 'applied indices %r after %d quiet rounds with leader %s; %r; escaped %r' % (applied, bound_c, leader, diagnose(sim, comp), sim.escaped[-2:]))
        if viol is None:
            subs = []
            bound2 = int(20 * rmax / 0.02)
            for n in comp:
                # one at a time: several nodes submitting in the same instant may legitimately overflow a tiny commandsQueueSize
                for attempt in range(4):
                    r = sim.submit(n, ('append', b'closing'))
                    sub = sim.subs[r[1]]
                    term0 = max(sim.nodes[x].raftCurrentTerm for x in comp)
                    since_change = None
                    for rounds2 in range(1, bound2 + 1):
                        sim.calm_round()
                        sim.check(light=True)
                        if sub['cbs']:
                            break
                        # the leader changed after the submission and the entry was cut off: the callback of such a
                        # command fires only when something else is applied at its position (open outcome, like
                        # LEADER_CHANGED) - an idle cluster never does that, a client gives up and retries
                        if max(sim.nodes[x].raftCurrentTerm for x in comp) > term0:
                            since_change = (since_change or 0) + 1
                            if since_change >= 100:
                                break
                    # QUEUE_FULL is a definite refusal that a tiny commandsQueueSize allows whenever another command
                    # arrived between two ticks: a client retries; a queue that is never drained still fails 4 times.
                    # MISSING_LEADER / NOT_LEADER / LEADER_CHANGED / DISCARDED (the entry lost its position to a new leader's): the leader found at the start of the quiet phase may
                    # still step down once because of the silence *before* the faults stopped (leaderFallbackTimeout);
                    # a client retries after the next election; leadership that keeps changing still fails 4 times.
                    codes = [e for _, e, _ in sub['cbs']]
                    if not codes and since_change is not None and since_change >= 100:
                        codes = [5]         # treated like LEADER_CHANGED
                    if codes == [1]:
                        for _ in range(5):
                            sim.calm_round()
                        continue
                    if codes and codes[0] in (2, 3, 4, 5):
                        def one_leader():
                            ls = [x for x in comp if sim.nodes[x]._isLeader()]
                            return len(ls) == 1 and all(sim.nodes[x]._getLeader() == sim.node_obj(ls[0]) for x in comp)
                        if not sim.rounds_until(one_leader, bound1):
                            break
                        for _ in range(10):
                            sim.calm_round()
                        continue
                    break
                subs.append(sub)
            bad = [(s['node'], [cluster.FR.get(e, e) for _, e, _ in s['cbs']]) for s in subs if [e for _, e, _ in s['cbs']] != [0]]
            if bad:
                viol = ('post-heal-submission-not-acknowledged', 'commands submitted after convergence (leader %s) were not acknowledged with SUCCESS: %r; %r; escaped %r' % (
                    leader, bad, diagnose(sim, comp), sim.escaped[-2:]))
        if viol is None:
            for _ in range(50):
                sim.calm_round()
                sim.check(light=True)
                if len(set(sim.nodes[n].raftLastApplied for n in comp)) == 1:
                    break
            applied = dict((n, sim.nodes[n].raftLastApplied) for n in comp)
            states = set(sim.nodes[n].state_key() for n in comp)
            if len(set(applied.values())) != 1:
                viol = ('replica-stays-behind', 'applied indices %r after the quiet phase; %r' % (applied, diagnose(sim, comp)))
            elif len(states) != 1:
                viol = ('replicas-differ', 'replica states differ after convergence: %r' % dict((n, sim.nodes[n].state_key()) for n in comp))
        if stale_leader[0]:
            classes.add('two-nodes-reported-leader')
        if compact_nonleader[0]:
            classes.add('compaction-on-non-leader')
        nontrivial = bool(sim.snapshot_msgs) or stale_leader[0] or compact_nonleader[0]
        res = simprop.result_for(PROP, sim, resolved, nontrivial, classes)
        if viol is not None:
            res.violation = viol
        return res
    finally:
        sim.destroy()


def shard(seed, n, tier):
    return simprop.standard_shard(PROP, strategy(tier), run_case, seed, n, tier)


def main(tier, seed, cases=None):
    return simprop.standard_main(PROP, LEVEL, __name__, RULE, ASSUMPTIONS, tier, seed, cases, quick=(8, 200), thorough=(16, 2500))


def replay(path):
    return runner.replay_file(PROP, path, run_case)
