"""C06 - a journaled node restarts without forgetting anything it acknowledged."""
import shutil

from hypothesis import strategies as st

from ..sim import cluster, gen, simprop, core
from .. import runner, findings, storage
from ..runner import Result
from ..storage import LAYER, KillNow

PROP = 'C06'
MANIFEST = {
    'engine': 'E1-sim + E2-storage',
    'level': 'fault_enumeration',
    'technique': 'Hypothesis-generated histories on journaled simulator nodes with process kills between any two steps and at a chosen primitive storage write inside a step (journal record/header, .meta write/rename, dump tmp write/rename), '
                 'restarts in any number up to all nodes; acknowledgement-obligation ledger, state == fold(committed prefix) across incarnations, SUCCESS-survives oracle',
    'text': 'Every voter has a journal file (and, per case, a dump file). The generator interleaves the network schedules of C01 with kill / kill-all / restart and kill-inside-step(j): the j-th primitive storage write of the step is where the '
            'process dies (for a journal record also torn). Oracle: (a) every log entry a node acknowledged with next_node_idx success, or as leader counted into a commit it established, and still held at the end of its last completed step, is in the '
            'recovered log with the same term after the first tick of the restarted process (or below the recovered log start with the applied index covering it); (b) after every step the state of every incarnation equals the reference fold of the '
            'committed prefix at its applied index and no position is executed twice or skipped; (c) the entry first reported committed at a position is never replaced, so commands acknowledged with SUCCESS stay in the sequence through any number of kills.',
    'note': 'Kill = process kill (completed writes persist, Python-buffered bytes are lost, record store may be torn); in-process zombie model of pvf/storage.py, cross-validated against real fork/_exit by C08; the orphaned fork child of a dump is not modelled (useFork off).',
}
LEVEL = 'fault_enumeration'
RULE = ('case = (configuration with journal on every voter, dump file on/off; step list <=220 incl. kill/killall/restart/killmid(j)). '
        'non-trivial = >=1 kill hit a node that had acknowledged >=1 entry not covered by a dump, and it was restarted; distinct = distinct case digests; kill_points = distinct (step op, primitive kind, index, torn?) reached by in-step kills')
ASSUMPTIONS = ['process kill, not power loss', 'kills inside a step are placed at primitive storage writes (a kill between two non-writing instructions equals the kill at the next write)',
               'operator restarts a node on the same journal/dump paths with the same member list']

EXTRA = [('kill', 2), ('restart', 8), ('killall', 1), ('killmid', 10), ('killcompact', 3)]       # table version 1 (saved replays)
EXTRA2 = EXTRA + [('ghostfwd', 3)]


class JSim(cluster.Sim):
    def __init__(self, cfg, workdir):
        self.owed = {}             # name -> {idx: term}
        self.pending_restart_check = {}
        self.acked_uncovered_kill = False
        self.kill_points = set()
        self.c06 = []
        self.kill_plan = None        # None: sampled kill index (legacy, used by C09); dict: step_no -> (delivery index, primitive index, mode)
        self.kill_counts = {}        # plan mode, counting pass: step_no -> (kind, [primitive counts per tick / per delivered message])
        LAYER.install()
        LAYER.reset()
        super(JSim, self).__init__(cfg, workdir)
        self.on_send_hooks.append(self._on_send)

    def _on_send(self, x, y, gen_, message):
        if isinstance(message, dict) and message.get('type') == 'next_node_idx' and message.get('success'):
            obj = self.nodes.get(x)
            if obj is None:
                return
            k = message['next_node_idx']
            owed = self.owed.setdefault(x, {})
            for e in core.log_of(obj)[:]:
                if e[1] < k:
                    owed[e[1]] = e[2]

    def note_leader_commits(self):
        for name in self.live():
            obj = self.nodes[name]
            if obj._isLeader():
                owed = self.owed.setdefault(name, {})
                c = obj.raftCommitIndex
                for e in core.log_of(obj)[:]:
                    if e[1] <= c:
                        owed[e[1]] = e[2]

    def prune(self, name, obj):
        """Keep only obligations the node still holds at the end of a completed step."""
        owed = self.owed.get(name)
        if not owed:
            return
        log = core.log_of(obj)
        have = dict((e[1], e[2]) for e in log[:])
        first = log[0][1] if len(log) else 1
        for idx in list(owed):
            if idx < first:
                continue            # covered by a snapshot: still owed (as state)
            if have.get(idx) != owed[idx]:
                del owed[idx]

    def dump_index(self, name):
        obj = self.nodes.get(name)
        return None

    def do_kill(self, name, why):
        obj = self.nodes.get(name)
        if obj is None:
            return
        owed = self.owed.get(name, {})
        log = core.log_of(obj)
        first = log[0][1] if len(log) else 1
        # entries acknowledged and not covered by a dump: log entries above the second log entry after a compaction
        if any(idx > first + 1 or first == 1 and idx > 1 for idx in owed):
            self.acked_uncovered_kill = True
        self.stop_node(name, clean=False)
        self.zombies.discard(name)
        LAYER.dead.discard(name)
        self.pending_restart_check[name] = dict(owed)

    def op_kill(self, a, b, c):
        cands = [n for n in self.voters if n in self.nodes]
        if not cands:
            return False
        name = self.pick(cands, a)
        self.do_kill(name, 'between-steps')
        return (name,)

    def op_killall(self, a, b, c):
        names = [n for n in self.voters if n in self.nodes]
        for n in names:
            self.do_kill(n, 'kill-all')
        return tuple(names)

    def op_restart(self, a, b, c):
        cands = self.dead_voters()
        if not cands:
            return False
        name = self.pick(cands, a)
        try:
            self.restart_node(name)
        except Exception as e:
            self.incarnation[name] -= 0
            self.nodes.pop(name, None)
            self.V('C06', 'restart-raises:%s' % type(e).__name__, '%s cannot be restarted after a kill (%s): %r' % (name, self.last_kill_cause.get(name, 'between-steps'), e))
            return (name, 'failed')
        # first tick: loads the dump, journal already reopened by the constructor
        self.tick_node(name, 0.001)
        obj = self.nodes[name]
        owed = self.pending_restart_check.pop(name, {})
        log = core.log_of(obj)
        have = dict((e[1], e[2]) for e in log[:])
        first = log[0][1] if len(log) else 1
        if not self.cfg.get('dump') and (first > 1 or (len(log) == 1 and log[0][2] != 0)):
            # known finding: this process restarted from a journal whose head was compacted away without a dump
            # file (or that was cleared by a snapshot install and re-initialised with one entry of the current
            # term) - its state is gone; everything that follows in this case is a consequence
            self.jo_compacted = True
        lost = []
        for idx, term in sorted(owed.items()):
            if idx >= first:
                if have.get(idx) != term:
                    lost.append((idx, term, have.get(idx)))
            elif obj.raftLastApplied < idx:
                lost.append((idx, term, 'below log start %d but applied index only %d' % (first, obj.raftLastApplied)))
        if lost:
            cause = self.last_kill_cause.get(name, 'between-steps')
            self.V('C06', 'acknowledged-entry-lost:' + cause,
                   '%s restarted (killed: %s): acknowledged entries %r are missing from the recovered log %r (applied %d, commit %d)' % (
                       name, cause, lost[:5], sorted(have.items())[:3] + ['...'] + sorted(have.items())[-2:], obj.raftLastApplied, obj.raftCommitIndex))
        self.owed[name] = dict((i, t) for i, t in owed.items() if have.get(i) == t or i < first)
        return (name,)

    def op_ghostfwd(self, a, b, c):
        """A follower forwards 1-3 commands and is killed before they (or their replies) travel; the restarted
        process learns the leader over new connections only and forwards again; then the messages of the dead
        process are delivered, then everything else. (Data written to a TCP connection before a process dies is
        still delivered; replies go to whatever connection the sender's address has by then.)"""
        cands = [n for n in self.voters if n in self.nodes and not self.nodes[n]._isLeader() and self.nodes[n]._getLeader() is not None]
        if not cands:
            return False
        name = self.pick(cands, a)
        k = 1 + b % 3
        for i in range(k):
            self.submit(name, self.payload(b + i, c))
        self.tick_node(name, 0.005)
        self.check(light=True)
        if name not in self.nodes:
            return False
        self.prune(name, self.nodes[name])
        self.last_kill_cause[name] = 'between-steps'
        self.do_kill(name, 'ghostfwd')
        self.op_restart(self.dead_voters().index(name), 0, 0)
        if name not in self.nodes:
            return (name, 'restart-failed')
        for _ in range(60):
            if self.nodes[name]._getLeader() is not None:
                break
            for (x, y) in self._connectables():
                if name in (x, y):
                    self.net.connect(x, y)
            for n in self.live():
                self.tick_node(n, 0.02)
            for g, to in self._deliverables():
                if g.alive:
                    while self.net.deliver(g, to):
                        pass
            self.check(light=True)
        if name in self.nodes:
            for i in range(k):
                self.submit(name, self.payload(b + i + 1, c + 1))
            self.tick_node(name, 0.005)
        ghosts = sum(len(g.q[to]) for g, to in self._deliverables() if not g.alive)
        self.counters['ghost_messages'] += ghosts
        self.drain()
        self.check(light=True)
        return (name, k, ghosts)

    def op_killcompact(self, a, b, c):
        """Compaction on a node, then a kill before (c even) or after (c odd) the tick that trims the journal,
        with deliveries to that node in between: the window between writing a dump and trimming the journal."""
        cands = [n for n in self.voters if n in self.nodes]
        if not cands:
            return False
        name = self.pick(cands, a)
        self.nodes[name].forceLogCompaction()
        self.tick_node(name, 0.02)
        for other in self.live():
            if other != name and self.nodes[other]._isLeader():
                self.tick_node(other, 0.11)
        for g, to in self._deliverables():
            if to == name:
                while self.net.deliver(g, to):
                    pass
        self.check(light=True)
        if c % 3 == 2 and name in self.nodes:
            # die inside the tick that trims the journal, at primitive write b
            self.nodes_idx = a
            return ('trim',) + tuple(self.op_killmid(self.voters.index(name) if False else [n for n in self.voters if n in self.nodes].index(name), 0, b))
        if c % 3 == 1 and name in self.nodes:
            self.tick_node(name, 0.02)
            self.check(light=True)
        if name in self.nodes:
            self.prune(name, self.nodes[name])
            self.last_kill_cause[name] = 'after-compaction-tick' if c % 3 == 0 else 'after-trim-tick'
            self.do_kill(name, 'killcompact')
        return (name, c % 3)

    def op_killmid(self, a, b, c):
        """Run one tick of a node and kill it at its j-th primitive storage write (j = c % 16);
        if the step performs fewer writes it completes and the node is killed right after it."""
        cands = [n for n in self.voters if n in self.nodes]
        if not cands:
            return False
        name = self.pick(cands, a)
        j = [0, 0, 0, 1, 1, 2, 2, 3, 4, 5, 6, 8, 10, 13][c % 14]
        mode = 'torn' if b % 3 == 0 else 'after'
        obj = self.nodes[name]
        plan = None
        counting = False
        msg_at = 0
        if self.kill_plan is not None:
            plan = self.kill_plan.get(self.step_no)
            if plan is None:
                counting = True          # counting pass: perform the step, record how many primitive writes it makes, no kill
                j = 10 ** 9
            else:
                msg_at, j, mode = plan
        self.prune(name, obj)
        LAYER.begin_step()
        LAYER.kill = (name, j, mode)
        LAYER.killed_at = None
        kind = 'tick'
        target = None
        if b % 2 == 1:
            find = lambda: [(g, to) for (g, to) in self._deliverables() if to == name and g.q[to][0] is not core.HELLO]
            if not find():
                # generate traffic towards the victim first (completed, checked steps of the other nodes)
                for other in self.live():
                    if other != name and self.nodes[other]._isLeader():
                        self.submit(other, ('append', b'k'))
                for _ in range(2):
                    for other in self.live():
                        if other != name:
                            self.tick_node(other, 0.11)
                    self.check(light=True)       # after every round of ticks: commits must be seen while the entries are in the log
                if name not in self.nodes:
                    return False
                self.prune(name, obj)
                LAYER.begin_step()
                LAYER.kill = (name, j, mode)
                LAYER.killed_at = None
            cands2 = find()
            if cands2:
                target = cands2[c % len(cands2)]
                kind = 'deliver'
        core.CLOCK.advance(name, cluster.DT[b % len(cluster.DT)] if kind == 'tick' else 0.0)
        core.CLOCK.active = name
        try:
            try:
                if kind == 'tick':
                    obj._onTick(0.0)
                else:
                    # deliver queued messages one by one; the first delivery with more than j primitive writes dies there
                    g, to = target
                    nmsg = 0
                    per_msg = []
                    while g.q[to] and g.q[to][0] is not core.HELLO:
                        self.prune(name, obj)
                        LAYER.begin_step()
                        if plan is not None:
                            LAYER.kill = (name, j, mode) if nmsg == msg_at else None
                        nmsg += 1
                        per_msg.append(0)
                        m = g.q[to].popleft()
                        frm = g.peer(to)
                        msg = core.ppickle.loads(m)
                        self.on_deliver(frm, to, g, msg)
                        core.CLOCK.active = name
                        self.net.transports[to]._onMessageReceived(self.node_obj(frm), msg)
                        per_msg[-1] = LAYER.count.get(name, 0)
                        if counting:
                            self.check(light=True)
            except KillNow:
                pass
            except Exception as e:
                self.escaped.append((self.step_no, name, type(e).__name__, str(e)[:200], 'killmid'))
        finally:
            LAYER.kill = None
        if counting:
            self.kill_counts[self.step_no] = (kind, [LAYER.count.get(name, 0)] if kind == 'tick' else per_msg, list(LAYER.log.get(name, [])) if kind == 'tick' else None)
            if kind == 'tick':
                self.after_tick(name, obj, core.CLOCK.t.get(name, core.EPOCH))
            return (name, kind, 'counted', self.kill_counts[self.step_no][1])
        hit = LAYER.killed_at
        if hit is not None:
            self.kill_points.add((kind, hit[2], hit[1], hit[3]))
            self.last_kill_cause[name] = 'in-step:%s' % hit[2]
            self.zombies.add(name)
        else:
            self.last_kill_cause[name] = 'between-steps'
        # what the dying process reported committed (and acknowledged with callbacks) before the kill point counts
        self.scan_commit(name, obj, [])
        self.do_kill(name, 'in-step')
        return (name, kind, j, mode, hit[2] if hit else 'not-reached')


def install_monitors(sim):
    sim.last_kill_cause = {}
    sim.jo_compacted = False

    def hook():
        sim.note_leader_commits()
        for name in sim.live():
            sim.prune(name, sim.nodes[name])
    sim.after_step_hooks.append(hook)


def strategy(tier):
    base = gen.case_strategy(140 if tier == 'quick' else 220, profiles=['mixed', 'compaction', 'compaction', 'pipelining', 'faulty'],
                             fixed={'journal': True})
    return st.tuples(base, st.booleans()).map(lambda t: dict(t[0], cfg=dict(t[0]['cfg'], dump=t[1])))


OWN = {'C06': None, 'C01': None, 'C04': {'committed-entry-differs'}, 'C02': {'success-but-not-in-sequence', 'success-with-wrong-result'}}


def run_once(case, kill_plan):
    cfg = dict(case['cfg'])
    cfg['target'] = list(OWN)
    cfg['journal'] = True
    no_compaction = False
    if not cfg.get('dump') and cfg['rng'] % 4 != 0:
        # known finding (journal without dump file: compaction trims the journal although the snapshot is only in memory)
        # would end most journal-only cases at their first compaction: exclude its trigger by construction in 3 of 4 of them
        cfg['compact_min_entries'] = 10 ** 6
        cfg['compact_min_time'] = 10.0 ** 6
        no_compaction = True
    wd = simprop.new_workdir('c06')
    sim = JSim(cfg, wd)
    sim.kill_plan = kill_plan
    install_monitors(sim)
    if no_compaction:
        sim.op_compact = lambda a, b, c: (sim.counters.__setitem__('compaction_excluded', sim.counters['compaction_excluded'] + 1), False)[1]
        sim.no_force_compaction = True      # macro steps (lagsnap) do not compact either
    try:
        resolved = simprop.run_steps(sim, case, EXTRA, EXTRA2)
        own = lambda: [v for v in sim.all_viol if v[0] in OWN and (OWN[v[0]] is None or v[1] in OWN[v[0]])]
        if not own() and not sim.viol:      # a monitor of another property stopped the case: state is tainted, no closing verdict
            # closing phase: everybody comes back, faults stop; state == fold and SUCCESS-acknowledged commands stay
            sim.blocked = set()
            sim.quiet_config()
            for n in list(sim.dead_voters()):
                sim.op_restart(sim.dead_voters().index(n), 0, 0)
                sim.check(light=True)
            for _ in range(400):
                sim.calm_round()
                sim.check(light=True)
                if sim.viol:
                    break
                live = sim.live()
                if sum(1 for n in live if sim.nodes[n]._isLeader()) == 1 and len(set(sim.nodes[n].raftLastApplied for n in live)) == 1 and \
                        all(sim.nodes[n].raftLastApplied >= sim.nodes[n].raftCommitIndex for n in live):
                    break
        classes = simprop.base_classes(sim)
        classes.add('dump-file' if cfg.get('dump') else 'journal-only')
        for k in ('stops', 'restarts', 'ghost_messages'):
            if sim.counters.get(k):
                classes.add(k)
        if sim.kill_points:
            classes.add('in-step-kill')
        nontrivial = sim.acked_uncovered_kill and sim.counters.get('restarts', 0) >= 1
        res = simprop.result_for(PROP, sim, resolved, nontrivial, classes)
        res.violation = None
        o = own()
        if o:
            def sig_of(v):
                s = v[1] if v[0] == PROP else '%s:%s' % (v[0], v[1])
                if not cfg.get('dump') and sim.jo_compacted:
                    s += ':journal-only-compacted'
                return s
            unknown = [v for v in o if findings.match(PROP, sig_of(v)) is None]
            v = unknown[0] if unknown else o[0]
            res.violation = (sig_of(v), v[2] + ' [dump file: %s; in-step kill plan: %r]' % (bool(cfg.get('dump')), kill_plan))
        res.kill_points = set(sim.kill_points)
        res.excluded = sim.counters.get('compaction_excluded', 0)
        res.kill_counts = dict(sim.kill_counts)
        return res
    finally:
        sim.destroy()
        shutil.rmtree(wd, ignore_errors=True)


def run_case(case):
    """Pass 1 runs the history with every kill-inside-step operation only *counting* the primitive storage writes of
    that step (between-step kills are real). Then up to `plans` of those steps are re-executed (the whole case is
    deterministic) with the process dying at a primitive write chosen among the ones the step really performs."""
    if 'kill_plan' in case:          # replay of a shrunk in-step kill
        return run_once(case, dict((int(k), tuple(v)) for k, v in case['kill_plan'].items()))
    res = run_once(case, {})
    if res.violation is not None and findings.match(PROP, res.violation[0]) is None:
        return res
    cands = []
    for step, (kind, counts, log) in sorted(res.kill_counts.items()):
        for mi, k in enumerate(counts):
            for j in range(k):
                cands.append((step, mi, j))
    nplans = case.get('plans', 2)
    salt = case['cfg'].get('rng', 0)
    chosen = []
    if cands:
        # deterministic spread over the candidates (all of them if there are few)
        stride = max(1, len(cands) // nplans)
        for i in range(min(nplans, len(cands))):
            chosen.append(cands[(salt + i * stride) % len(cands)])
    for n_, (step, mi, j) in enumerate(chosen):
        mode = 'torn' if (salt + n_) % 3 == 0 else 'after'
        r2 = run_once(case, {step: (mi, j, mode)})
        res.kill_points |= r2.kill_points
        res.classes = sorted(set(res.classes) | set(r2.classes))
        res.nontrivial = res.nontrivial or r2.nontrivial
        if r2.violation is not None:
            kf = findings.match(PROP, r2.violation[0])
            if res.violation is None or (kf is None and findings.match(PROP, res.violation[0]) is not None):
                res.violation = r2.violation
                res.sample = dict(r2.sample or {}, kill_plan={str(step): [mi, j, mode]})
            if kf is None:
                break
    return res


def shard(seed, n, tier):
    stats = runner.Stats()

    def rc(case):
        res = run_case(case)
        stats.sets['kill_points'] |= set('%s/%s/%d/%s' % k for k in res.kill_points)
        return res
    runner.explore(PROP, strategy(tier), rc, n, seed, stats, shrink=True)
    return stats


def main(tier, seed, cases=None):
    return simprop.standard_main(PROP, LEVEL, __name__, RULE, ASSUMPTIONS, tier, seed, cases, quick=(14, 300), thorough=(16, 2500))


def replay(path):
    return runner.replay_file(PROP, path, run_case)
