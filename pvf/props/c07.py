"""C07 - votes and terms survive restarts (one leader per term across crashes)."""
import shutil

from ..sim import cluster, gen, simprop, core
from .. import runner

PROP = 'C07'
MANIFEST = {
    'engine': 'E1-sim + E2-storage',
    'level': 'fault_enumeration',
    'technique': 'Hypothesis-generated election schedules with kill/restart of journaled voters at any step (biased to the voter that last granted a vote); vote ledger and term monitors across incarnations',
    'text': 'Election-heavy schedules on journaled nodes with process kills (object dropped, files kept) and restarts between any two steps. Over the whole run, across incarnations: per (voter, term) at most one '
            'candidate receives response_vote; no vote is granted and no leader followed for a term below the highest term the node acknowledged before; at most one leader per term. '
            'Kill points are enumerated at step granularity (every simulator step is a possible kill point; a swarm rule kills exactly between a vote and the end of that election).',
    'note': 'Also a state monitor on the durable term itself: a journaled process stopped between two steps must start again with a term not below the one it held (term-forgotten-by-restart). Kill = process kill between simulator steps (storage writes inside a step are completed); journal files on tmpfs; network model of pvf/sim.',
}
LEVEL = 'fault_enumeration'
RULE = ('case = (configuration with journal files, step list <=250 from the election profile extended with kill / kill-last-voter / restart). '
        'non-trivial = a voter was killed after sending response_vote in a term that had no leader yet, and was restarted; distinct = distinct case digests')
ASSUMPTIONS = ['a killed process loses its memory but keeps journal, .meta and dump files', 'kills happen between simulator steps']

EXTRA = [('kill', 3), ('killvoter', 5), ('restart', 8)]       # table version 1 (saved replays)
EXTRA2 = EXTRA + [('staleterm', 3)]


def strategy(tier):
    return gen.case_strategy(150 if tier == 'quick' else 250, profiles=['elections', 'elections', 'faulty', 'mixed'], fixed={'journal': True})


def run_case(case):
    cfg = dict(case['cfg'])
    cfg['target'] = [PROP]
    cfg['journal'] = True
    wd = simprop.new_workdir('c07')
    sim = cluster.Sim(cfg, wd)
    try:
        resolved = simprop.run_steps(sim, case, EXTRA, EXTRA2)
        classes = simprop.base_classes(sim)
        if sim.counters.get('restarts'):
            classes.add('restart')
        if sim.killed_after_vote:
            classes.add('killed-after-vote')
        if sim.counters.get('staleterm_completed'):
            classes.add('restarted-node-hears-older-term')
        nontrivial = sim.killed_after_vote >= 1 and sim.counters.get('restarts', 0) >= 1
        res = simprop.result_for(PROP, sim, resolved, nontrivial, classes)
        # two leaders in one term across a restart is this property's statement too
        if res.violation is None:
            for v in sim.all_viol:
                if v[0] == 'C03' and v[1] == 'two-leaders-in-term' and sim.counters.get('restarts'):
                    res.violation = ('two-leaders-in-term-across-restart', v[2])
        return res
    finally:
        sim.destroy()
        shutil.rmtree(wd, ignore_errors=True)


def shard(seed, n, tier):
    return simprop.standard_shard(PROP, strategy(tier), run_case, seed, n, tier)


def main(tier, seed, cases=None):
    return simprop.standard_main(PROP, LEVEL, __name__, RULE, ASSUMPTIONS, tier, seed, cases, quick=(8, 250), thorough=(16, 3000))


def replay(path):
    return runner.replay_file(PROP, path, run_case)
