"""C08 - file journal == in-memory list for any operation sequence, and kill-safe.

Oracle 1 (model-based): every generated operation is applied to the real
FileJournal and to a Python list; len, every index, [-1], slices are compared
after every operation and right after a reopen; the persisted commit index
after reopen is the last one stored.

Oracle 2 (real kills): for operations flagged by the generator, every primitive
storage write of the operation (mmap store, meta tmp write, meta rename) is a
kill point: a forked child re-opens a copy of the files, performs the operation
and calls os._exit() right after primitive number p (p = 0 .. k: none to all)
or in the middle of a record store (torn); the parent re-opens the copy and
checks the allowed outcomes.
"""
import os
import shutil
import struct
import sys
import time

from hypothesis import strategies as st

from .. import env, runner
from ..runner import Result

PROP = 'C08'
MANIFEST = {
    'engine': 'E4-model + E2-storage',
    'level': 'fault_enumeration',
    'technique': 'Hypothesis op-sequence generation vs list model + enumerated kill points at every primitive storage write (in-process, every 6th cross-validated by a real fork/_exit)',
    'text': 'Model-based: generated journal op sequences are compared with a Python list after every op and after reopen. '
            'Fault enumeration: for flagged ops every primitive storage write (and a torn record store) is a real process-kill point; the reopened file must be an allowed outcome. '
            'Right level because the property quantifies over op sequences x crash points, both enumerable at this granularity.',
    'note': 'Kill = SIGKILL semantics (no power loss); aligned 4-byte header store atomic; sizes up to ~5x file size with files capped at 1 MiB; not exhaustive over sequences.',
}
LEVEL = 'fault_enumeration'
MAX_FILE = 1 << 20

RULE = ('cases = Hypothesis-generated op sequences over runs of 2-12 small appends/add(size classes 0,1,small,remaining-space+-8,0.5x-5x file size)/'
        'deleteEntriesFrom/deleteEntriesTo/clear/setRaftCommitIndex/onOneSecondTimer/reopen, compared with a list after every op; '
        'flagged ops are additionally killed (real fork+_exit) after every primitive write and mid-record. '
        'non-trivial = sequence contains an add that grew the file AND a head/tail drop that is later followed by a reopen; '
        'distinct = distinct case digests; kill_points counts distinct (op kind, primitive index, mode) triples')
ASSUMPTIONS = [
    'kill = process kill (SIGKILL): completed stores into the MAP_SHARED mapping and completed write/rename calls persist; no power loss',
    'the aligned 4-byte header word is stored atomically; a record store can be cut at any byte',
    'deleteEntriesFrom/To are called with 0 <= k <= len as syncobj.py does',
    'commit-index oracle after a kill: value is one passed to setRaftCommitIndex earlier, or the default 1 only if no store ever completed',
]


def _payload(n, size):
    o = n % 251
    base = bytes(range(256))
    rep = base * (size // 256 + 2)
    return rep[o:o + size]


def strategy(tier):
    kf = st.sampled_from([0, 0, 0, 1])
    add = st.tuples(st.just('add'), st.sampled_from([0, 1, 2, 2, 3, 3, 4, 4]), st.integers(0, 1000), st.integers(0, 2 ** 40), st.integers(0, 2 ** 20), kf)
    frm = st.tuples(st.just('from'), st.integers(0, 40), kf)
    to = st.tuples(st.just('to'), st.integers(0, 40), kf)
    clear = st.tuples(st.just('clear'), kf)
    commit = st.tuples(st.just('commit'), st.integers(1, 1000), kf)
    timer = st.tuples(st.just('timer'))
    reopen = st.tuples(st.just('reopen'))
    # fill = a run of m small appends (equal or varying sizes): journals of many records, so that head and tail drops keep and drop
    # several records each and the kept part can be smaller or larger than the dropped one
    fill = st.tuples(st.just('fill'), st.integers(2, 12), st.integers(0, 1000), st.booleans(), st.integers(0, 2 ** 20))
    op = st.one_of(add, add, add, add, fill, fill, frm, to, to, clear, commit, timer, reopen, reopen)
    n = 30 if tier == 'quick' else 60

    def expand(ops):
        out = []
        for o in ops:
            if o[0] == 'fill':
                _, m, n0, equal, idx = o
                out.extend(('add', 2, n0 if equal else n0 + 7 * i, idx + i, 1 + idx % 5, 0) for i in range(m))
            else:
                out.append(o)
        return out
    return st.fixed_dictionaries({
        'ops': st.lists(op, min_size=1, max_size=n).map(expand),
    })


# ---------------------------------------------------------------- primitives

class KillNow(BaseException):
    pass


class _Prims(object):
    """Counts primitive storage writes of pysyncobj.journal; optionally exits the
    process at a chosen one (only ever armed inside a forked child)."""

    def __init__(self):
        self.log = []
        self.kill_at = None      # (index, mode) mode in after/torn
        self.torn_frac = 0.5
        self.installed = False
        self.inproc = False      # True: raise KillNow instead of exiting the process

    def die(self):
        if self.inproc:
            self.kill_at = None
            raise KillNow()
        os._exit(0)

    def install(self):
        if self.installed:
            return
        import pysyncobj.journal as J
        self.J = J
        prims = self
        orig_write = J.ResizableFile.write

        def write(rf, offset, values):
            i = len(prims.log)
            prims.log.append(('mmap', len(values)))
            if prims.kill_at is not None and prims.kill_at[0] == i and prims.kill_at[1] == 'torn':
                cut = max(1, min(len(values) - 1, int(len(values) * prims.torn_frac)))
                try:
                    orig_write(rf, offset, values)      # make sure the mapping is large enough
                except BaseException:
                    os._exit(3)
                # restore the tail to what a cut memcpy would have left: unknown old bytes -> zero fill
                orig_write(rf, offset + cut, b'\xee' * (len(values) - cut))
                prims.die()
            orig_write(rf, offset, values)
            if prims.kill_at is not None and prims.kill_at[0] == i:
                prims.die()
        J.ResizableFile.write = write
        self._orig_write = orig_write

        real_open = open

        class FileProxy(object):
            def __init__(self, f):
                self._f = f

            def write(self, data):
                i = len(prims.log)
                prims.log.append(('fwrite', len(data)))
                if prims.kill_at is not None and prims.kill_at[0] == i and prims.inproc:
                    prims.die()     # in-process kill: the data would only have reached the Python buffer, which a SIGKILL loses
                r = self._f.write(data)
                if prims.kill_at is not None and prims.kill_at[0] == i:
                    os._exit(0)     # unflushed Python buffer is lost, as with SIGKILL
                return r

            def __getattr__(self, name):
                return getattr(self._f, name)

            def __enter__(self):
                self._f.__enter__()
                return self

            def __exit__(self, *a):
                r = self._f.__exit__(*a)
                i = len(prims.log)
                prims.log.append(('fclose', 0))
                if prims.kill_at is not None and prims.kill_at[0] == i:
                    prims.die()
                return r

        def popen(path, mode='r', *a, **kw):
            f = real_open(path, mode, *a, **kw)
            if 'w' in mode or 'a' in mode or '+' in mode:
                if str(path).endswith('.meta') or str(path).endswith('.tmp'):
                    if 'w' in mode:
                        i = len(prims.log)
                        prims.log.append(('fopen-trunc', 0))
                        if prims.kill_at is not None and prims.kill_at[0] == i:
                            prims.die()
                    return FileProxy(f)
            return f
        J.open = popen

        class ShutilProxy(object):
            def __getattr__(self, name):
                return getattr(shutil, name)

            @staticmethod
            def move(a, b):
                i = len(prims.log)
                prims.log.append(('move', 0))
                r = shutil.move(a, b)
                if prims.kill_at is not None and prims.kill_at[0] == i:
                    prims.die()
                return r
        J.shutil = ShutilProxy()

        class OsProxy(object):
            def __getattr__(self, name):
                return getattr(os, name)

            @staticmethod
            def rename(a, b):
                i = len(prims.log)
                prims.log.append(('move', 0))
                r = os.rename(a, b)
                if prims.kill_at is not None and prims.kill_at[0] == i:
                    prims.die()
                return r

            @staticmethod
            def replace(a, b):
                i = len(prims.log)
                prims.log.append(('move', 0))
                r = os.replace(a, b)
                if prims.kill_at is not None and prims.kill_at[0] == i:
                    prims.die()
                return r
        J.os = OsProxy()
        self.installed = True


PRIMS = _Prims()
_case_no = [0]


class Ctx(object):
    def __init__(self):
        self.dir = os.path.join(env.tmpdir(), 'c08-%d-%d' % (os.getpid(), _case_no[0]))
        _case_no[0] += 1
        os.makedirs(self.dir)
        self.path = os.path.join(self.dir, 'journal.bin')
        self.j = None
        self.model = []
        self.commit_mem = None          # value set in memory, not yet stored
        self.commit_stored = None       # last value a completed store persisted
        self.commit_set = set()
        self.grew = False
        self.drops = 0
        self.drop_then_reopen = False
        self.kill_points = set()
        self.kill_trials = 0

    def open(self):
        self.j = PRIMS.J.createJournal(self.path)

    def close(self):
        if self.j is not None:
            try:
                self.j._destroy()
            except Exception:
                pass
            self.j = None

    def cleanup(self):
        self.close()
        shutil.rmtree(self.dir, ignore_errors=True)


def _resolve(ctx, op):
    """Make an op concrete (sizes/k) against the current state."""
    kind = op[0]
    if kind == 'add':
        _, cls, n, idx, term = op[:5]
        fsize = os.path.getsize(ctx.path)
        used = _used(ctx)
        if cls == 0:
            size = 0
        elif cls == 1:
            size = 1
        elif cls == 2:
            size = n % 64
        elif cls == 3:
            size = max(0, fsize - used - 24 + (n % 17) - 8)
        else:
            size = fsize * (n % 10 + 1) // 2
            if fsize > MAX_FILE:
                size = n % 64
        return ['add', size, n, idx, term]
    if kind in ('from', 'to'):
        return [kind, op[1] % (len(ctx.model) + 1)]
    if kind == 'commit':
        return ['commit', op[1]]
    return [kind]


def _used(ctx):
    return 40 + sum(len(e[0]) + 24 for e in ctx.model)


def _apply_real(j, cop, J):
    kind = cop[0]
    if kind == 'add':
        j.add(_payload(cop[2], cop[1]), cop[3], cop[4])
    elif kind == 'from':
        j.deleteEntriesFrom(cop[1])
    elif kind == 'to':
        j.deleteEntriesTo(cop[1])
    elif kind == 'clear':
        j.clear()
    elif kind == 'commit':
        j.setRaftCommitIndex(cop[1])
    elif kind == 'timer':
        j.onOneSecondTimer()
    elif kind == 'commit_store':
        j.setRaftCommitIndex(cop[1])
        j.onOneSecondTimer()


def _apply_model(ctx, cop):
    kind = cop[0]
    m = ctx.model
    if kind == 'add':
        m.append((_payload(cop[2], cop[1]), cop[3], cop[4]))
    elif kind == 'from':
        del m[cop[1]:]
        ctx.drops += 1
    elif kind == 'to':
        ctx.model = m[cop[1]:]
        ctx.drops += 1
    elif kind == 'clear':
        ctx.model = []
    elif kind == 'commit':
        ctx.commit_mem = cop[1]
        ctx.commit_set.add(cop[1])
    elif kind == 'timer':
        if ctx.commit_mem is not None:
            ctx.commit_stored = ctx.commit_mem


def _compare(ctx, where):
    j, m = ctx.j, ctx.model
    if len(j) != len(m):
        return ('content-mismatch:len', '%s: len(journal)=%d, len(list)=%d' % (where, len(j), len(m)))
    for i in range(len(m)):
        e = j[i]
        if (bytes(e[0]), e[1], e[2]) != m[i]:
            return ('content-mismatch:entry', '%s: entry %d differs: journal=(%d bytes, idx %r, term %r) list=(%d bytes, idx %r, term %r)' % (
                where, i, len(e[0]), e[1], e[2], len(m[i][0]), m[i][1], m[i][2]))
    if m:
        e = j[-1]
        if (bytes(e[0]), e[1], e[2]) != m[-1]:
            return ('content-mismatch:last', '%s: [-1] differs' % where)
        a, b = len(m) // 3, len(m) - len(m) // 4
        if [(bytes(x[0]), x[1], x[2]) for x in j[a:b]] != m[a:b]:
            return ('content-mismatch:slice', '%s: slice [%d:%d] differs' % (where, a, b))
    return None


def _snapshot_files(ctx, dst):
    os.makedirs(dst, exist_ok=True)
    for name in os.listdir(ctx.dir):
        p = os.path.join(ctx.dir, name)
        if os.path.isfile(p):
            shutil.copyfile(p, os.path.join(dst, name))


def _norm(entries):
    return [(bytes(e[0]), e[1], e[2]) for e in entries]


def _allowed(kind, cop, before, got):
    """Is the re-opened content `got` an allowed outcome of killing `cop`
    somewhere, given the list `before`?"""
    if kind == 'add':
        new = (_payload(cop[2], cop[1]), cop[3], cop[4])
        return got == before or got == before + [new], 'append must be all-or-nothing'
    if kind == 'from':
        k = cop[1]
        ok = any(got == before[:jx] for jx in range(k, len(before) + 1))
        return ok, 'tail drop must leave S[:j] with k<=j<=len'
    if kind == 'to':
        k = cop[1]
        ok = any(got == before[i:] for i in range(0, k + 1))
        return ok, 'head drop must leave S[i:] with i<=k (everything meant to be kept)'
    if kind == 'clear':
        ok = any(got == before[i:jx] for i in range(len(before) + 1) for jx in range(i, len(before) + 1))
        return ok, 'clear must leave a contiguous range'
    return got == before, 'operation does not touch entries'


def _kill_enumerate(ctx, cop, before, stored_before, commit_set_after, nprims, prim_log, out):
    """Enumerate kill points of one op on copies of the files taken before it."""
    kind = cop[0]
    points = [(p, 'after') for p in range(-1, nprims)]
    for p, (pk, size) in enumerate(prim_log):
        if pk == 'mmap' and size > 4:
            points.append((p, 'torn'))
    src = os.path.join(ctx.dir, 'pre')
    for (p, mode) in points:
        work = os.path.join(ctx.dir, 'kill')
        shutil.rmtree(work, ignore_errors=True)
        shutil.copytree(src, work)
        wpath = os.path.join(work, 'journal.bin')
        code = _inproc_trial(wpath, cop, ctx.commit_mem_before, p, mode)
        if ctx.kill_trials % 6 == 0 and code in (0, 7):
            # cross-validation with a real fork + _exit on a second copy: same bytes must result
            work2 = os.path.join(ctx.dir, 'kill2')
            shutil.rmtree(work2, ignore_errors=True)
            shutil.copytree(src, work2)
            code2 = _killer_trial(os.path.join(work2, 'journal.bin'), cop, ctx.commit_mem_before, p, mode)
            same = code2 == code and _dir_bytes(work) == _dir_bytes(work2)
            shutil.rmtree(work2, ignore_errors=True)
            ctx.fork_trials = getattr(ctx, 'fork_trials', 0) + 1
            if not same:
                out.append(('harness', 'in-process kill and real fork/_exit kill disagree for %r point %d mode %s (codes %r %r)' % (cop, p, mode, code, code2)))
                continue
        ctx.kill_trials += 1
        if code == 9:
            continue        # the op itself raised in the child: reported by oracle 1
        if code not in (0, 7):
            out.append(('harness', 'kill child exit code %r' % code))
            continue
        ctx.kill_points.add((kind, p, mode))
        try:
            j2 = PRIMS.J.createJournal(wpath)
            got = _norm([j2[i] for i in range(len(j2))])
            ci = j2.getRaftCommitIndex()
            j2._destroy()
        except BaseException as e:
            out.append(('kill:%s:reopen-raises:%s' % (kind, type(e).__name__),
                        'killed %s after primitive %d (%s) of %r; reopen raised %r' % (kind, p, mode, _short(cop), e)))
            continue
        ok, why = _allowed(kind, cop, before, got)
        if not ok:
            what = 'kept-entries-lost' if len(got) < len(before) else 'entries-differ'
            out.append(('kill:%s:%s' % (kind, what),
                        'killed %r at primitive %d/%d mode=%s (prims=%r): reopened journal has %d entries %r, before the op it had %d %r; %s' % (
                            _short(cop), p, nprims, mode, prim_log, len(got), [(len(e[0]), e[1], e[2]) for e in got][:6],
                            len(before), [(len(e[0]), e[1], e[2]) for e in before][:6], why)))
        allowed_ci = set(commit_set_after)
        if stored_before is None:
            allowed_ci.add(1)
        if ci not in allowed_ci:
            out.append(('kill:%s:commit-index-never-set' % kind,
                        'killed %r at primitive %d mode=%s: reopened commit index %r not in values set %r (last completed store: %r)' % (
                            _short(cop), p, mode, ci, sorted(commit_set_after), stored_before)))
    shutil.rmtree(os.path.join(ctx.dir, 'kill'), ignore_errors=True)


def _dir_bytes(d):
    out = {}
    for name in sorted(os.listdir(d)):
        with open(os.path.join(d, name), 'rb') as f:
            out[name] = f.read()
    return out


def _inproc_trial(wpath, cop, commit_mem_before, p, mode):
    if p < 0:
        return 0
    saved = list(PRIMS.log)
    j = None
    try:
        PRIMS.log = []
        PRIMS.kill_at = None
        j = PRIMS.J.createJournal(wpath)
        PRIMS.log = []
        PRIMS.kill_at = (p, mode)
        PRIMS.inproc = True
        if commit_mem_before is not None:
            j.setRaftCommitIndex(commit_mem_before)
        _apply_real(j, cop, PRIMS.J)
        return 7
    except KillNow:
        return 0
    except BaseException:
        return 9
    finally:
        PRIMS.kill_at = None
        PRIMS.inproc = False
        PRIMS.log = saved
        if j is not None:
            try:
                j._destroy()
            except BaseException:
                pass


_KILLER = [None]


def _killer():
    """Small long-lived helper process (this module run as a script) that performs each
    kill trial in a forked child of its own: forking the big Hypothesis process is slow."""
    import subprocess
    k = _KILLER[0]
    if k is None or k[0] != os.getpid() or k[1].poll() is not None:
        envv = dict(os.environ, PYTHONHASHSEED='0')
        proc = subprocess.Popen([sys.executable, '-c',
                                 'import sys; sys.path.insert(0, %r); from pvf import env; env.bootstrap(); from pvf.props import c08; c08._killer_loop()' % env.VERIF],
                                stdin=subprocess.PIPE, stdout=subprocess.PIPE, env=envv)
        import atexit
        atexit.register(lambda proc=proc: (proc.stdin.close(), proc.wait()) if proc.poll() is None else None)
        _KILLER[0] = k = (os.getpid(), proc)
    return k[1]


def _killer_trial(wpath, cop, commit_mem_before, p, mode):
    import json
    proc = _killer()
    req = {'path': wpath, 'cop': cop, 'cm': commit_mem_before, 'p': p, 'mode': mode}
    proc.stdin.write((json.dumps(req) + '\n').encode())
    proc.stdin.flush()
    line = proc.stdout.readline()
    if not line:
        raise runner.HarnessError('kill helper died')
    return int(line)


def _killer_loop():
    import json
    PRIMS.install()
    out = sys.stdout
    for line in sys.stdin:
        req = json.loads(line)
        pid = os.fork()
        if pid == 0:
            try:
                p, mode, cop = req['p'], req['mode'], req['cop']
                if p < 0:
                    os._exit(0)
                PRIMS.log = []
                PRIMS.kill_at = None
                j = PRIMS.J.createJournal(req['path'])
                PRIMS.log = []
                PRIMS.kill_at = (p, mode)
                if req['cm'] is not None:
                    j.setRaftCommitIndex(req['cm'])
                _apply_real(j, cop, PRIMS.J)
                os._exit(7)     # kill point not reached
            except BaseException:
                os._exit(9)
        _, status = os.waitpid(pid, 0)
        code = os.WEXITSTATUS(status) if os.WIFEXITED(status) else -1
        out.write('%d\n' % code)
        out.flush()


def _short(cop):
    return cop


def run_case(case):
    PRIMS.install()
    PRIMS.kill_at = None
    ctx = Ctx()
    viol = []
    classes = set()
    trace = []
    killed = []
    try:
        try:
            ctx.open()
        except Exception as e:
            viol.append(('exception:open:%s' % type(e).__name__, 'opening a fresh journal raised %r' % (e,)))
        for n, op in enumerate(case['ops']):
            if viol:
                break
            if op[0] == 'reopen':
                ctx.close()
                try:
                    ctx.open()
                except Exception as e:
                    viol.append(('exception:reopen:%s' % type(e).__name__, 'reopen after ops %r raised %r' % (trace[-5:], e)))
                    break
                trace.append(['reopen'])
                classes.add('reopen')
                if ctx.drops:
                    ctx.drop_then_reopen = True
                v = _compare(ctx, 'after reopen (op %d)' % n)
                if v is None and ctx.commit_stored is not None and ctx.j.getRaftCommitIndex() != ctx.commit_stored:
                    v = ('commit-index-after-reopen', 'after reopen commit index is %r, last stored %r' % (ctx.j.getRaftCommitIndex(), ctx.commit_stored))
                if v is None and ctx.commit_stored is None and ctx.j.getRaftCommitIndex() != 1:
                    v = ('commit-index-after-reopen', 'nothing stored, commit index %r' % ctx.j.getRaftCommitIndex())
                ctx.commit_mem = ctx.commit_stored
                if v:
                    viol.append(v)
                    break
                continue
            cop = _resolve(ctx, op)
            do_kill = bool(op[-1]) and op[0] in ('add', 'from', 'to', 'clear', 'commit') and os.path.getsize(ctx.path) <= 65536
            if do_kill and cop[0] == 'commit':
                cop = ['commit_store', cop[1]]
            before = list(ctx.model)
            stored_before = ctx.commit_stored
            ctx.commit_mem_before = ctx.commit_mem
            if do_kill:
                ctx.j.flush() if hasattr(ctx.j, 'flush') else None
                shutil.rmtree(os.path.join(ctx.dir, 'pre'), ignore_errors=True)
                _snapshot_files(ctx, os.path.join(ctx.dir, 'pre'))
            fsize0 = os.path.getsize(ctx.path)
            PRIMS.log = []
            try:
                _apply_real(ctx.j, cop, PRIMS.J)
            except BaseException as e:
                viol.append(('exception:%s:%s' % (cop[0], type(e).__name__),
                             'op %d %r raised %r (file size %d, list len %d)' % (n, cop[:2], e, fsize0, len(ctx.model))))
                break
            prim_log = list(PRIMS.log)
            if cop[0] == 'commit_store':
                _apply_model(ctx, ['commit', cop[1]])
                _apply_model(ctx, ['timer'])
            else:
                _apply_model(ctx, cop)
            trace.append(cop[:2] if cop[0] == 'add' else cop)
            classes.add(cop[0])
            if os.path.getsize(ctx.path) > fsize0:
                ctx.grew = True
                classes.add('file-grew')
            v = _compare(ctx, 'after op %d %r' % (n, cop[:2]))
            if v:
                viol.append(v)
                break
            if do_kill:
                out = []
                _kill_enumerate(ctx, cop, before, stored_before, set(ctx.commit_set), len(prim_log), prim_log, out)
                classes.add('kill-enumerated')
                killed.append(n)
                if out:
                    harness = [o for o in out if o[0] == 'harness']
                    if harness:
                        raise runner.HarnessError(harness[0][1])
                    viol.extend(out)
                    # keep going only if all are known findings (search continues past them)
                    from .. import findings
                    if any(findings.match(PROP, s) is None for s, _ in out):
                        break
    finally:
        ctx.cleanup()
    nontrivial = ctx.grew and ctx.drop_then_reopen
    violation = None
    if viol:
        from .. import findings
        unknown = [v for v in viol if findings.match(PROP, v[0]) is None]
        violation = unknown[0] if unknown else viol[0]
    r = Result(nontrivial=nontrivial, classes=sorted(classes), violation=violation,
               sample={'ops': trace[:40], 'killed_ops': killed})
    r.kill_points = ctx.kill_points
    r.fork_trials = getattr(ctx, 'fork_trials', 0)
    r.kill_trials = ctx.kill_trials
    r.all_violations = viol
    return r


def shard(seed, n, tier, shrink):
    stats = runner.Stats()

    def rc(case):
        res = run_case(case)
        stats.sets['kill_points'] |= set('%s/%d/%s' % k for k in res.kill_points)
        stats.extra['kill_trials'] += res.kill_trials
        stats.extra['kill_trials_cross_validated_by_real_fork'] += res.fork_trials
        # known findings hit besides the reported violation are counted too
        from .. import findings
        for s, d in res.all_violations:
            kf = findings.match(PROP, s)
            if kf is not None and (res.violation is None or s != res.violation[0]):
                stats.known[s] += 1
                stats.known_what[s] = kf.get('what', s)
        return res
    runner.explore(PROP, strategy(tier), rc, n, seed, stats, shrink=shrink)
    return stats


def main(tier, seed, cases=None):
    t0 = time.time()
    if tier == 'quick':
        shards, n = 6, cases or 250
    else:
        shards, n = 16, cases or 5000
    kws = [dict(seed=seed * 1000 + i, n=n, tier=tier, shrink=True) for i in range(shards)]
    stats = runner.run_shards('pvf.props.c08', 'shard', kws)
    return runner.finish(PROP, LEVEL, tier, seed, stats, RULE, ASSUMPTIONS, t0,
                         extra={'kill_trials': stats.extra.get('kill_trials', 0)})


def replay(path):
    return runner.replay_file(PROP, path, run_case)
