"""C09 - snapshots capture exactly the state at their position, in every serializer mode."""
import gzip
import os
import pickle as stdpickle
import shutil
import time

from hypothesis import strategies as st

from ..sim import cluster, gen, simprop, core
from .. import runner, findings, storage
from ..runner import Result
from ..storage import LAYER, KillNow
from . import c06
import pysyncobj.pickle as ppickle
from pysyncobj import replicated, SyncObjConsumer, SyncObjConf
from pysyncobj.batteries import ReplDict, ReplList, ReplCounter
from pysyncobj.config import SERIALIZER_STATE

PROP = 'C09'
MANIFEST = {
    'engine': 'E1-sim + E2-storage',
    'level': 'exploration',
    'technique': 'Hypothesis-generated command histories over an object with several consumers, a code-version switch and dynamic membership enabled; compaction at generated moments in four serializer modes (memory, file, file+real fork with a '
                 'gate that keeps the child mid-pickle, user serializer with delayed checker), chunk sizes 1..>snapshot; restore by restart or by interrupted chunked transfer; kills during the dump write; reference-fold oracle incl. dump-file contents',
    'text': 'State = object attributes + ReplDict/ReplList/ReplCounter + a custom consumer with a versioned method. After every step: every node\'s full state (attributes, every consumer, enabled code version and the implementation a fresh '
            'call resolves to, member set) equals the reference fold of the committed prefix at its applied index - in particular right after a restart from a dump and right after a snapshot install; every dump file on disk '
            'deserialises completely and equals the fold at the index it names (also right after a kill at any primitive write of the dump); a lagging or restarted-empty follower is brought to equality after compaction by entries or by a '
            'chunked transfer that is interrupted by disconnects and by newer snapshots. In fork mode the child is held inside pickling by a gate object while the parent applies further commands.',
    'note': 'fork mode uses a real os.fork of the harness process (child only pickles and _exits); user-serializer mode captures the state synchronously when the library calls it and reports SERIALIZING for a generated number of ticks.',
}
LEVEL = 'exploration'
RULE = ('case = (mode memory|file|fork|user, chunk size in {1,2,7,50,200,65536}, journal on/off, step list <=160 of cluster steps + submissions on object/consumers, setCodeVersion, compaction, lag/heal, restart, in-step kill). '
        'non-trivial = a snapshot position was strictly below the node\'s applied index when the write finished (node kept applying), or a snapshot transfer was interrupted/restarted, or a node was restored from a dump; distinct = distinct case digests')
ASSUMPTIONS = ['no membership change commands are issued (member set restored from snapshots must equal the static set)',
               'fork mode: the child never returns into harness code (it _exits inside pysyncobj.serializer)']

GATE = {'parent': os.getpid(), 'path': None}


class Gate(object):
    """Pickled as part of the object state: blocks *in a forked child only* until the harness creates a file."""

    def __getstate__(self):
        if os.getpid() != GATE['parent'] and GATE['path']:
            t0 = time.time()
            while not os.path.exists(GATE['path']) and time.time() - t0 < 20:
                time.sleep(0.001)
        return {}

    def __setstate__(self, st_):
        pass

    def __eq__(self, other):
        return isinstance(other, Gate)

    def __hash__(self):
        return 1


class Custom(SyncObjConsumer):
    def __init__(self):
        super(Custom, self).__init__()
        self.chain = 0

    @replicated
    def tag(self, cid):
        self.chain = core.fold_hash(self.chain, 'tag_v0', cid)
        return self.chain

    @replicated(ver=1)
    def tag(self, cid):
        self.chain = core.fold_hash(self.chain, 'tag_v1', cid)
        return self.chain


class SProbe(core.Probe):
    def __init__(self, selfAddr, others, conf, sim, name, consumers=None):
        self.d = ReplDict()
        self.l = ReplList()
        self.c = ReplCounter()
        self.x = Custom()
        super(SProbe, self).__init__(selfAddr, others, conf, sim, name, consumers=[self.d, self.l, self.c, self.x])
        self.gate = Gate()

    def state_key(self):
        try:
            resolved = self._getFuncName((id(self.x), 'tag'))
        except KeyError:
            resolved = None
        return (self.count, self.chain, tuple(sorted(self.kv.items())), tuple(sorted(self.d.rawData().items())), tuple(self.l.rawData()),
                self.c.get(), self.x.chain, self.getCodeVersion(), resolved)


class SSim(c06.JSim):
    probe_class = SProbe

    def __init__(self, cfg, workdir, mode):
        self.mode = mode
        self.older_reload = set()
        self.m = {'count': 0, 'chain': 0, 'kv': {}, 'd': {}, 'l': [], 'c': 0, 'x': 0, 'ver': 0}
        self.idmap = None
        self.user_state = {}
        self.fork_pending = {}
        super(SSim, self).__init__(cfg, workdir)
        self.model_keys = {1: self.mkey(self.voters[0])}
        self.model_state_at = {1: self.snapshot_model()}

    # -- configuration per mode
    def make_conf(self, name):
        conf = super(SSim, self).make_conf(name)
        conf.dynamicMembershipChange = True
        if self.mode == 'fork' and not self.is_ro(name):
            conf.useFork = True
        if self.mode == 'user' and not self.is_ro(name):
            us = self.user_state.setdefault(name, {'left': 0, 'active': False, 'delay': 1 + self.cfg['rng'] % 4})

            def serializer(path, meta, name=name, us=us):
                obj = self.nodes.get(name) or self.starting
                blob = {'attrs': (obj.count, obj.chain, dict(obj.kv)), 'cons': [c._serialize() for c in (obj.d, obj.l, obj.c, obj.x)],
                        'ver': obj._SyncObj__enabledCodeVersion, 'meta': meta}
                with open(path, 'wb') as f:
                    stdpickle.dump(blob, f, 2)
                us['left'] = us['delay']
                us['active'] = True

            def deserializer(path, name=name):
                obj = self.nodes.get(name) or self.starting
                with open(path, 'rb') as f:
                    blob = stdpickle.load(f)
                if name in self.nodes and blob['meta'][0][1] <= obj.raftLastApplied:
                    # known finding: a snapshot that is not newer than the state (the leader re-sends until it is
                    # acknowledged) cannot be recognised before the user's deserializer has overwritten the state
                    self.older_reload.add(name)
                obj.count, obj.chain, obj.kv = blob['attrs'][0], blob['attrs'][1], dict(blob['attrs'][2])
                for c, data in zip((obj.d, obj.l, obj.c, obj.x), blob['cons']):
                    c._deserialize(data)
                obj._SyncObj__enabledCodeVersion = blob['ver']
                return tuple(blob['meta'])

            def checker(us=us):
                if not us['active']:
                    return SERIALIZER_STATE.NOT_SERIALIZING
                if us['left'] > 0:
                    us['left'] -= 1
                    return SERIALIZER_STATE.SERIALIZING
                us['active'] = False
                return SERIALIZER_STATE.SUCCESS
            conf.serializer, conf.deserializer, conf.serializeChecker = serializer, deserializer, checker
        return conf

    def _build_idmap(self, obj):
        self.idmap = {}
        for fid, meth in obj._idToMethod.items():
            owner = meth.__self__
            oname = 'o' if owner is obj else {id(obj.d): 'd', id(obj.l): 'l', id(obj.c): 'c', id(obj.x): 'x'}[id(owner)]
            self.idmap[fid] = (oname, meth.__name__)

    def start_node(self, name, others=None):
        self.starting = None
        obj = super(SSim, self).start_node(name, others)
        if getattr(self, 'idmap', None) is None:
            self._build_idmap(obj)      # while a node exists: the first decode may come when all of them are dead
        return obj

    # -- model
    def mkey(self, name):
        m = self.m
        resolved = 'tag_v%d' % (1 if m['ver'] >= 1 else 0)
        return (m['count'], m['chain'], tuple(sorted(m['kv'].items())), tuple(sorted(m['d'].items())), tuple(m['l']), m['c'], m['x'], m['ver'], resolved)

    def snapshot_model(self):
        m = self.m
        return {'count': m['count'], 'chain': m['chain'], 'kv': dict(m['kv']), 'd': dict(m['d']), 'l': list(m['l']), 'c': m['c'], 'x': m['x'], 'ver': m['ver']}

    def decode(self, cmd):
        cmd = bytes(cmd)
        if cmd[:1] != b'\x00':
            return None
        if self.idmap is None:
            self._build_idmap(list(self.nodes.values())[0])
        c = ppickle.loads(cmd[1:])
        fid, args = (c[0], tuple(c[1])) if isinstance(c, tuple) else (c, ())
        oname, mname = self.idmap[fid]
        if oname == 'o':
            return (mname.rsplit('_v', 1)[0], args)
        return ('%s.%s' % (oname, mname), args)

    def extend_model(self, upto):
        m = self.m
        while self.model_pos < upto:
            p = self.model_pos + 1
            g = self.G.get(p)
            if g is None:
                return False
            cmd = bytes(g[0])
            if cmd[:1] == b'\x03':
                m['ver'] = ppickle.loads(cmd[1:])
            else:
                d = self.decode(cmd)
                if d is not None:
                    name, args = d
                    if name in ('append', 'put', 'pop'):
                        ms = core.ModelState()
                        ms.count, ms.chain, ms.kv = m['count'], m['chain'], m['kv']
                        self.model_results[p] = ms.apply(name, args)
                        m['count'], m['chain'], m['kv'] = ms.count, ms.chain, ms.kv
                        self.cid_positions[args[0]].add(p)
                    elif name == 'd.set_v0':
                        m['d'][args[0]] = args[1]
                    elif name == 'd.pop_v0':
                        m['d'].pop(args[0], None)
                    elif name == 'l.append_v0':
                        m['l'].append(args[0])
                    elif name == 'l.pop_v0':
                        if m['l']:
                            m['l'].pop(args[0] if args else -1)
                    elif name == 'c.add_v0':
                        m['c'] += args[0]
                    elif name == 'x.tag_v0':
                        m['x'] = core.fold_hash(m['x'], 'tag_v0', args[0])
                    elif name == 'x.tag_v1':
                        m['x'] = core.fold_hash(m['x'], 'tag_v1', args[0])
                    else:
                        raise runner.HarnessError('unknown command %r' % (name,))
            self.model_pos = p
            self.model_keys[p] = self.mkey(None)
            self.model_state_at[p] = self.snapshot_model()
        return True

    # the per-node member tuple is part of state_key but depends on the node: compare it separately
    def check(self, light=False):
        super(SSim, self).check(light)
        for name in self.live():
            have = sorted(n.address for n in self.nodes[name].otherNodes)
            want = sorted(self.addr[v] for v in self.voters if v != name)
            if have != want:
                self.V('C09', 'member-set-not-restored', '%s holds member set %r, expected %r' % (name, have, want))
        self.check_dumps()

    # -- dump files must always be complete snapshots of the state at the index they name
    def check_dumps(self):
        if not self.workdir or self.mode == 'memory':
            return
        for name in self.voters:
            path = os.path.join(self.workdir, name + '.dump')
            if not os.path.exists(path):
                continue
            try:
                st_ = os.stat(path)
                key = (st_.st_mtime_ns, st_.st_size)
                if self.dump_seen.get(name) == key:
                    continue
                if self.mode == 'user':
                    with open(path, 'rb') as f:
                        blob = stdpickle.load(f)
                    idx = blob['meta'][0][1]
                    got = (blob['attrs'][0], blob['attrs'][1], tuple(sorted(blob['attrs'][2].items())))
                    data = None
                else:
                    with open(path, 'rb') as f:
                        with gzip.GzipFile(fileobj=f) as g:
                            data = ppickle.load(g)
                    idx = data[1][1]
                    sd = data[0][0]
                    got = (sd['count'], sd['chain'], tuple(sorted(sd['kv'].items())))
                self.dump_seen[name] = key
            except Exception as e:
                self.V('C09', 'dump-file-torn', 'dump file of %s does not deserialise completely: %r' % (name, e))
                continue
            self.counters['dump_files_checked'] += 1
            if not self.extend_model(idx):
                continue
            ms = self.model_state_at.get(idx)
            want = (ms['count'], ms['chain'], tuple(sorted(ms['kv'].items())))
            if got != want:
                self.V('C09', 'dump-file-not-state-at-its-index', 'dump file of %s names position %d but holds object state %r, executing the log up to %d gives %r' % (name, idx, got, idx, want))
            elif data is not None:
                cons = data[0][1:]
                cd = [v for k, v in cons[0].items() if k.endswith('__data')][0]
                cl = [v for k, v in cons[1].items() if k.endswith('__data')][0]
                cc = [v for k, v in cons[2].items() if k.endswith('__counter')][0]
                if (cd, cl, cc, cons[3].get('chain')) != (ms['d'], ms['l'], ms['c'], ms['x']):
                    self.V('C09', 'dump-file-consumers-not-at-index', 'dump file of %s (position %d) holds consumers %r, the fold gives %r' % (
                        name, idx, (cd, cl, cc, cons[3].get('chain')), (ms['d'], ms['l'], ms['c'], ms['x'])))


def install(sim):
    c06.install_monitors(sim)
    sim.dump_seen = {}
    sim.kept_applying = False
    sim.restored_from_dump = False
    sim.transfer_interrupted = False
    sim.snap_open = {}

    def track():
        # "kept applying while the snapshot was written": serializer busy on a node while its applied index advanced
        for name in sim.live():
            obj = sim.nodes[name]
            ser = obj._SyncObj__serializer
            busy = ser._Serializer__pid != 0
            if busy:
                prev = sim.snap_open.setdefault(name, obj.raftLastApplied)
                if obj.raftLastApplied > prev:
                    sim.kept_applying = True
            else:
                sim.snap_open.pop(name, None)
    sim.after_step_hooks.append(track)

    def on_send(x, y, g, m):
        if isinstance(m, dict) and m.get('serialized') is not None:
            data, first, last = m['serialized']
            k = (x, y)
            if first and sim.transfer_state.get(k) == 'mid':
                sim.transfer_interrupted = True
            sim.transfer_state[k] = 'done' if last else 'mid'
    sim.transfer_state = {}
    sim.on_send_hooks.append(on_send)


MODES = ['memory', 'file', 'file', 'user', 'fork']
EXTRA = [('subc', 14), ('setver', 2), ('lag', 3), ('restart', 5), ('kill', 2), ('killmid', 4), ('killcompact', 2), ('opengate', 4), ('compactrecv', 5), ('bigstate', 2)]


def strategy(tier):
    base = gen.case_strategy(110 if tier == 'quick' else 160, n_min=2, n_max=4, profiles=['compaction', 'compaction', 'mixed', 'faulty'],
                             fixed={'queue_size': 100000, 'wait_leader': True})
    return st.tuples(base, st.sampled_from(MODES), st.booleans(), st.sampled_from([1, 2, 7, 50, 200, 65536])).map(
        lambda t: dict(t[0], mode=t[1], cfg=dict(t[0]['cfg'], journal=t[2], compact_chunk=t[3])))


def run_case(case):
    cfg = dict(case['cfg'])
    mode = case['mode']
    cfg['target'] = [PROP, 'C01']
    cfg['dump'] = mode != 'memory'
    if mode == 'memory':
        cfg['journal'] = False      # journal without dump file is C06's known finding, not this property
    cfg['dynamic'] = True
    wd = simprop.new_workdir('c09')
    GATE['parent'] = os.getpid()
    GATE['path'] = os.path.join(wd, 'gate-open') if mode == 'fork' else None
    sim = SSim(cfg, wd, mode)
    install(sim)
    children = []

    def op_subc(a, b, c):
        live = sim.live()
        if not live:
            return False
        name = live[a % len(live)]
        obj = sim.nodes[name]
        cid = sim.next_cid
        sim.next_cid += 1
        k = b % 6
        core.CLOCK.active = name
        try:
            if k == 0:
                obj.d.set(c % 4, cid)
            elif k == 1:
                obj.d.pop(c % 4)
            elif k == 2:
                obj.l.append(cid)
            elif k == 3:
                obj.l.pop(0)
            elif k == 4:
                obj.c.add(c % 7)
            else:
                obj.x.tag(cid)
        except KeyError:
            return False
        return (name, ['d.set', 'd.pop', 'l.append', 'l.pop', 'c.add', 'x.tag'][k])

    def op_setver(a, b, c):
        live = sim.live()
        if not live:
            return False
        name = live[a % len(live)]
        obj = sim.nodes[name]
        if obj.getCodeVersion() >= 1:
            return False
        core.CLOCK.active = name
        obj.setCodeVersion(1)
        return (name,)

    def op_lag(a, b, c):
        # isolate one voter for a while: it will need entries or a snapshot later
        return sim.op_partition(1 << (a % len(sim.voters)), 0, 0)

    def op_opengate(a, b, c):
        if mode != 'fork':
            return False
        with open(GATE['path'], 'w'):
            pass
        # wait (real time) for forked children to finish, without reaping them: the library reaps with WNOHANG
        for name in sim.live():
            pid = sim.nodes[name]._SyncObj__serializer._Serializer__pid
            if pid > 0:
                try:
                    os.waitid(os.P_PID, pid, os.WEXITED | os.WNOWAIT)
                except OSError:
                    pass
        os.remove(GATE['path'])
        return ()

    def op_compactrecv(a, b, c):
        # a node that is in the middle of receiving a snapshot compacts its own log (its own dump write overlaps the transfer)
        recv = [n for n in sim.live() if sim.nodes[n]._SyncObj__serializer._Serializer__incomingTransmissionFile is not None]
        if not recv:
            return False
        name = recv[a % len(recv)]
        sim.nodes[name].forceLogCompaction()
        sim.tick_node(name, 0.02)
        sim.compact_during_transfer = True
        return (name,)

    def op_bigstate(a, b, c):
        # make snapshots larger than one file buffer (8 KiB) so that partially flushed writes matter
        live = sim.live()
        if not live:
            return False
        name = live[a % len(live)]
        core.CLOCK.active = name
        sim.nodes[name].d.set(100 + b % 2, bytes(range(256)) * (20 + c % 30))
        return (name,)

    sim.compact_during_transfer = False
    sim.op_compactrecv, sim.op_bigstate = op_compactrecv, op_bigstate
    sim.op_subc, sim.op_setver, sim.op_lag, sim.op_opengate = op_subc, op_setver, op_lag, op_opengate
    orig_restart = sim.op_restart

    def op_restart(a, b, c):
        cands = sim.dead_voters()
        if cands:
            name = cands[a % len(cands)]
            if os.path.exists(os.path.join(wd, name + '.dump')):
                sim.restored_from_dump = True
        return orig_restart(a, b, c)
    sim.op_restart = op_restart
    if not cfg['journal']:
        # without a journal a restart loses term and vote (C07 is about journaled nodes): Raft safety is not promised then,
        # so kills/restarts are generated only for journaled configurations; counted as excluded
        for opname in ('op_kill', 'op_killmid', 'op_killcompact', 'op_killall'):
            setattr(sim, opname, lambda a, b, c: (sim.counters.__setitem__('kill_excluded_no_journal', sim.counters['kill_excluded_no_journal'] + 1), False)[1])
    if mode == 'fork':
        # a killed parent whose child is still pickling: the orphan is outside this model -> open the gate before any kill
        for opname in ('op_kill', 'op_killmid', 'op_killcompact', 'op_killall'):
            orig = getattr(sim, opname)
            setattr(sim, opname, (lambda orig: lambda a, b, c: (op_opengate(0, 0, 0), orig(a, b, c))[1])(orig))
    try:
        resolved = simprop.run_steps(sim, case, EXTRA, EXTRA + [('lagsnap', 6)])
        own = lambda: [v for v in sim.all_viol if v[0] in (PROP, 'C01')]
        if not own() and not sim.viol:      # a monitor of another property stopped the case: state is tainted, no closing verdict
            # closing phase: everyone back, healed; lagging / restarted nodes must reach equality (entries or snapshot)
            op_opengate(0, 0, 0)
            sim.blocked = set()
            sim.quiet_config()
            for n in list(sim.dead_voters()):
                sim.op_restart(0, 0, 0)
                sim.check(light=True)
            ok = False
            progress, stalled = None, 0
            for i in range(30000):
                if mode == 'fork' and i % 5 == 0:
                    op_opengate(0, 0, 0)
                sim.calm_round()
                sim.check(light=True)
                if sim.viol:
                    break
                # bounded by lack of progress, not by a number of rounds: with generated 1-2 byte chunks and 20 ms
                # per send a transfer of a big state legitimately takes thousands of rounds
                now = (sim.snapshot_msgs, tuple(sim.nodes[n].raftLastApplied for n in sim.live()), tuple(sim.nodes[n].raftCurrentTerm for n in sim.live()))
                stalled = stalled + 1 if now == progress else 0
                progress = now
                if stalled >= 1500:
                    break
                live = sim.live()
                top = max(sim.nodes[n].raftCommitIndex for n in live)
                if sum(1 for n in live if sim.nodes[n]._isLeader()) == 1 and all(sim.nodes[n].raftLastApplied >= top for n in live):
                    ok = True
                    break
            if not own() and not ok and not sim.viol:
                sim.V('C09', 'follower-not-brought-up-to-date', 'after 1500 rounds (30 virtual seconds) without faults and without progress applied indices are %r (commit %r), escaped %r' % (
                    dict((n, sim.nodes[n].raftLastApplied) for n in sim.live()), dict((n, sim.nodes[n].raftCommitIndex) for n in sim.live()), sim.escaped[-2:]))
        classes = simprop.base_classes(sim)
        classes.add('mode=' + mode)
        classes.add('chunk=%d' % cfg['compact_chunk'])
        if sim.kept_applying:
            classes.add('applied-while-snapshot-in-progress')
        if sim.transfer_interrupted:
            classes.add('transfer-restarted')
        if sim.compact_during_transfer:
            classes.add('own-compaction-during-incoming-transfer')
        if sim.restored_from_dump:
            classes.add('restored-from-dump')
        if sim.counters.get('dump_files_checked'):
            classes.add('dump-file-checked')
        if sim.kill_points:
            classes.add('in-step-kill')
        nontrivial = sim.kept_applying or sim.transfer_interrupted or sim.restored_from_dump
        res = simprop.result_for(PROP, sim, resolved, nontrivial, classes)
        res.violation = None
        o = own()
        if o:
            def sig_of(v):
                s_ = v[1] if v[0] == PROP else '%s:%s' % (v[0], v[1])
                if sim.older_reload and v[0] == 'C01' and v[1] == 'position-executed-again-or-out-of-order':
                    s_ += ':older-snapshot-reloaded-by-user-deserializer'
                return s_
            unknown = [v for v in o if findings.match(PROP, sig_of(v)) is None]
            v = unknown[0] if unknown else o[0]
            res.violation = (sig_of(v), v[2] + ' [mode %s, chunk %d, journal %s]' % (mode, cfg['compact_chunk'], cfg['journal']))
        return res
    finally:
        if mode == 'fork':
            try:
                with open(GATE['path'], 'w'):
                    pass
            except Exception:
                pass
            for obj in list(sim.nodes.values()):
                pid = obj._SyncObj__serializer._Serializer__pid
                if pid > 0:
                    try:
                        os.waitpid(pid, 0)
                    except OSError:
                        pass
        sim.destroy()
        if mode == 'fork':
            try:
                while True:
                    pid, _ = os.waitpid(-1, os.WNOHANG)
                    if pid == 0:
                        break
            except OSError:
                pass
        GATE['path'] = None
        shutil.rmtree(wd, ignore_errors=True)


def shard(seed, n, tier):
    return simprop.standard_shard(PROP, strategy(tier), run_case, seed, n, tier)


def main(tier, seed, cases=None):
    return simprop.standard_main(PROP, LEVEL, __name__, RULE, ASSUMPTIONS, tier, seed, cases, quick=(6, 120), thorough=(16, 2000))


def replay(path):
    return runner.replay_file(PROP, path, run_case)
