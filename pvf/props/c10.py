"""C10 - membership changes keep safety and every node agrees on the member set."""
from hypothesis import strategies as st

from ..sim import cluster, gen, simprop, core
from .. import runner, findings
from ..runner import Result
import pysyncobj.pickle as ppickle

PROP = 'C10'
MANIFEST = {
    'engine': 'E1-sim',
    'level': 'exploration',
    'technique': 'Hypothesis-generated schedules with add/remove requests (API and admin path) on any node at any time, growing/shrinking 1-5 voters under the operator discipline; safety monitors with per-node member sets, '
                 'member-set == fold of the membership commands in the log, leader-side gate monitor, agreement after a quiet phase',
    'text': 'dynamicMembershipChange=True. add/remove requests are issued on any live node at any step (refusals are counted, not errors); an added node starts empty with the committed member list; a node whose removal '
            'commits is shut down at that step and can only return as a fresh process (its address is reused only after every running node has dropped it). After every step: the C01/C03/C04 monitors run with the committing/elected node\'s own member set as the voting set; on a node whose log is not '
            'compacted the member set must equal the fold of the membership commands currently in its log over its constructor set; a leader must not append a membership entry while an earlier one in its log is uncommitted or before '
            'an entry of its own term is committed. After a quiet closing phase all members hold the same member set, equal to the fold of the committed membership commands.',
    'note': 'On a node whose log is compacted (own compaction or installed snapshot) the fold starts from the fold of the committed membership commands below its log start (skipped only if the ghost table has a hole there); a macro step lets a cut-off leader accept a change, compact and send the snapshot to a laggard before it is deposed; majority monitors use each node\'s own view of the voters; network model of pvf/sim.',
}
LEVEL = 'exploration'
RULE = ('case = (1-5 initial voters of 8 possible, configuration, step list <=220 with addnode/remnode ops through API or admin path, incl. repeated requests whose effect is in place already). '
        'non-trivial = >=2 membership changes were requested while an earlier one was uncommitted, or a leader was elected while a membership change was uncommitted; distinct = distinct case digests')
ASSUMPTIONS = ['operator discipline: removed node shut down when the removal commits; added node starts empty with the current member list',
               'no node loses its memory; in particular the address of a removed node is reused by a fresh process only after every running node has dropped it from its member set']

EXTRA = [('addnode', 7), ('remnode', 6), ('specsnap', 2), ('redundant', 3), ('specsnap2', 1)]
OWN = {'C10': None, 'C01': None, 'C03': None, 'C04': {'commit-index-decreased', 'committed-entry-differs', 'commit-without-majority', 'applied-index-decreased', 'log-matching-broken'}}


class DynSim(cluster.Sim):
    def __init__(self, cfg, workdir=None):
        self.ctor_members = {}
        self.pending_changes = 0
        self.overlap_requests = 0
        self.leader_change_during_change = False
        self.prev_last = {}
        self.requested = 0
        self.refused = 0
        self.member_cmds_seen = set()
        self.prev_view = {}
        self.names_all = ['n%d' % i for i in range(8)]
        super(DynSim, self).__init__(cfg, workdir)

    def start_node(self, name, others=None):
        if others is None:
            others = [self.addr[v] for v in self.voters if v != name]
        self.ctor_members[name] = set(self.addr2name[a] for a in others) | {name}
        if name not in self.voters:
            self.voters.append(name)
        return super(DynSim, self).start_node(name, others)

    def view_members(self, name):
        obj = self.nodes[name]
        return set(self.addr2name[n.address] for n in obj.otherNodes) | {name}

    def member_set(self, committer):
        if committer is None or committer not in self.nodes:
            return set()
        return self.view_members(committer)

    def holds(self, v, p, e):
        return v in self.nodes and super(DynSim, self).holds(v, p, e)

    def majority_applies(self, name, p):
        # with a changing member set the majority is defined by the node that decides the commit (the first
        # to report the position committed); followers merely learn it
        if self.G_by.get(p, (None, None))[1] != self.step_no:
            return False
        deciders = [n for (n, q) in self.advanced_now if q == p and n in self.nodes and (self.nodes[n]._isLeader() or self.leader_before.get(n))]
        if deciders:
            return name in deciders          # several nodes advanced in the same step: the leader decided
        return self.G_by[p][0] == name

    def majority_alt(self, name, p, e):
        # the deciding leader may have changed its own member set later in the same step (a membership entry
        # takes effect when appended): also accept its view from before the step
        mem = self.prev_view.get(name)
        if not mem:
            return False
        return sum(1 for v in mem if self.holds(v, p, e)) * 2 > len(mem)

    def check_committed_stay(self):
        return

    def uncommitted_changes(self):
        n = 0
        for name in self.live():
            obj = self.nodes[name]
            if obj._isLeader():
                log = core.log_of(obj)
                n = max(n, sum(1 for e in log[:] if e[1] > obj.raftCommitIndex and bytes(e[0])[:1] == b'\x02'))
        return n

    def op_addnode(self, a, b, c):
        live = self.live()
        if not live:
            return False
        req = self.pick(live, a)
        members = self.view_members(req)
        # an address whose process was removed may be given to a fresh, empty process only once no running node still
        # counts the old incarnation as a voter: otherwise a voter of that node's (stale) configuration has lost its
        # memory, which no Raft tolerates (see ASSUMPTIONS)
        stale = set()
        for n in live:
            stale |= self.view_members(n)
        spare = [n for n in self.names_all if n not in self.nodes and n not in members and n not in stale]
        if not spare or len(members) >= 5:
            return False
        new = self.pick(spare, b)
        # operator discipline: the new process is given the current (= committed) member list, not the requester's
        # speculative view (which may contain an uncommitted change that is truncated later)
        init = set('n%d' % i for i in range(self.cfg['n']))
        cmds = [m for m in (membership_of(self.G[p][0]) for p in sorted(self.G)) if m is not None]
        committed = fold_members(self, init, cmds, None)
        others = [self.addr[m] for m in sorted(committed) if m != new]
        self.start_node(new, others)
        return self._request(req, 'add', new, c)

    def op_remnode(self, a, b, c):
        live = self.live()
        if not live:
            return False
        req = self.pick(live, a)
        members = sorted(self.view_members(req))
        if len(members) <= 1:
            return False
        target = self.pick(members, b)
        return self._request(req, 'rem', target, c)

    def op_redundant(self, a, b, c):
        """A membership request whose effect is in place already (a client that repeats a request after a lost reply):
        add of a node the requester counts as a member, removal of one it does not."""
        live = self.live()
        if not live:
            return False
        req = self.pick(live, a)
        members = self.view_members(req)
        if b % 2 == 0:
            kind, cand = 'add', sorted(m for m in members if m != req)
        else:
            kind, cand = 'rem', [n for n in self.names_all if n not in members]
        if not cand:
            return False
        self.counters['redundant_membership_requests'] += 1
        return self._request(req, kind, self.pick(cand, b // 2), c)

    def op_specsnap2(self, a, b, c):
        """specsnap with a redundant request instead of a real change"""
        self._spec_redundant = True
        try:
            return self.op_specsnap(a, b, c)
        finally:
            self._spec_redundant = False

    def op_specsnap(self, a, b, c):
        """Macro step: a follower is cut off and misses entries; the leader, cut off from everybody, accepts a
        membership change (uncommitted), compacts its log and brings the laggard up to date with a snapshot;
        then (c even) the rest deposes the leader so that the change is truncated, or (c odd) everything heals."""
        voters = [v for v in self.voters if v in self.nodes]
        if len(voters) < 3:
            return False
        leaders = lambda grp: [v for v in grp if v in self.nodes and self.nodes[v]._isLeader()]
        if len(leaders(voters)) != 1:
            self.blocked = set()
            if not self.rounds_until(lambda: len(leaders(voters)) == 1, 200):
                return False
        L = leaders(voters)[0]
        others = [v for v in voters if v != L and v in self.view_members(L)]
        if len(others) < 2:
            return False
        lag = others[a % len(others)]
        self.set_partition({lag})
        for _ in range(2):
            self.submit(L, self.payload(1, self.next_cid))
            for _ in range(3):
                self.calm_round()
                self.check(light=True)
        if self.viol or L not in self.nodes or not self.nodes[L]._isLeader():
            return (L, lag, 'leader-lost')
        self.set_partition({L})
        live = self.live()
        if getattr(self, '_spec_redundant', False):
            r = self.op_redundant(live.index(L), b // 2, c // 2)
        elif b % 2 == 0:
            r = self.op_addnode(live.index(L), b // 2, c // 2)
        else:
            r = self.op_remnode(live.index(L), b // 2, c // 2)
        self.tick_node(L, 0.02)
        self.check(light=True)
        self.nodes[L].forceLogCompaction()
        self.tick_node(L, 0.02)
        self.check(light=True)       # between the ticks: commits must be seen while the entries are still in the log
        self.tick_node(L, 0.02)
        self.check(light=True)
        if lag not in self.nodes or L not in self.nodes:
            return (L, lag, r, 'gone')
        names = self.voters + self.ro
        self.blocked = set(frozenset((x, y)) for x in names for y in names if x < y and {x, y} != {L, lag})
        target = self.nodes[L].raftLastApplied
        for _ in range(60):
            self.heal_links()
            self.tick_node(L, 0.02)
            self.tick_node(lag, 0.001)
            for g, to in self._deliverables():
                while self.nodes[lag].raftLastApplied < target and self.net.deliver(g, to):
                    pass
            self.check(light=True)
            if self.viol or self.nodes[lag].raftLastApplied >= target:
                break
        if c % 2 == 0:
            self.set_partition({L})
            rest = [v for v in voters if v != L]
            if self.rounds_until(lambda: len(leaders(rest)) == 1, 300) and not self.viol:
                self.submit(leaders(rest)[0], self.payload(1, self.next_cid))
                for _ in range(5):
                    self.calm_round()
                    self.check(light=True)
        self.blocked = set()
        for _ in range(30):
            self.calm_round()
            self.check(light=True)
            if self.viol:
                break
        self.counters['specsnap_completed'] += 1
        return (L, lag, r, c % 2)

    def _request(self, req, kind, target, c):
        obj = self.nodes[req]
        if self.uncommitted_changes() >= 1:
            self.overlap_requests += 1
        rec = {'kind': kind, 'target': target, 'req': req, 'cbs': []}
        self.requested += 1
        cb = lambda res, err, rec=rec: rec['cbs'].append(err)
        self.mreqs.append(rec)
        addr = self.addr[target]
        if c % 2 == 0:
            f = (lambda: obj.addNodeToCluster(addr, callback=cb)) if kind == 'add' else (lambda: obj.removeNodeFromCluster(addr, callback=cb))
        else:
            f = (lambda: obj._addNodeToCluster([addr], cb)) if kind == 'add' else (lambda: obj._removeNodeFromCluster([addr], cb))
        self.call(req, f)
        return (req, kind, target, 'api' if c % 2 == 0 else 'admin')


def membership_of(cmd):
    cmd = bytes(cmd)
    if cmd[:1] != b'\x02':
        return None
    return ppickle.loads(cmd[1:])


def fold_members(sim, base, cmds, self_name):
    s = set(base)
    for c in cmds:
        kind, addr = c[0], c[1]
        n = sim.addr2name.get(addr)
        if kind == 'add':
            s.add(n)
        elif kind == 'rem' and n != self_name:
            s.discard(n)
    return s


def install_monitors(sim):
    sim.mreqs = []

    def hook():
        # operator discipline: shut a node down once its removal is committed
        for p in sorted(sim.G):
            if p in sim.member_cmds_seen:
                continue
            sim.member_cmds_seen.add(p)
            m = membership_of(sim.G[p][0])
            if m is not None and m[0] == 'rem':
                n = sim.addr2name.get(m[1])
                if n in sim.nodes:
                    sim.stop_node(n, clean=True)
                    sim.counters['removed_node_shut_down'] += 1
        for name in sim.live():
            obj = sim.nodes[name]
            log = core.log_of(obj)
            if len(log) == 0:
                continue
            last = log[-1][1]
            prev = sim.prev_last.get((name, sim.incarnation[name]), 1)
            # member set == fold of the membership commands in the log; for a compacted log the part below the log
            # start is the fold of the committed commands (ghost table G; skipped if G has a hole there)
            base = base_alt = None
            if log[0][1] == 1:
                base = sim.ctor_members[name]
            elif all(p in sim.G for p in range(2, log[0][1])):
                # over the node's constructor set (the committed member list of the moment it was started): replaying
                # all commands in order over it gives the same set as over the initial cluster, because the last
                # command that names a node decides whether it is a member
                below = [m for m in (membership_of(sim.G[p][0]) for p in range(2, log[0][1])) if m is not None]
                base = fold_members(sim, sim.ctor_members[name], below, name) | {name}
                # a snapshot received from another node carries the member set of its position, which can be OLDER than
                # the member list this node was started with (started after 'rem X' committed at 15, then brought up to
                # date with a snapshot taken at 14: X is a member again until entry 15 arrives). Then the base is the fold
                # over the initial cluster. Own compaction gives the first base, an installed snapshot the second.
                init = set('n%d' % i for i in range(sim.cfg['n']))
                base_alt = fold_members(sim, init, below, name) | {name}
                sim.counters['fold_checked_on_compacted_log'] += 1
            if base is not None:
                cmds = [m for m in (membership_of(e[0]) for e in log[:]) if m is not None]
                want = fold_members(sim, base, cmds, name)
                have = sim.view_members(name)
                if want != have and base_alt is not None and fold_members(sim, base_alt, cmds, name) == have:
                    sim.counters['member_set_of_older_snapshot'] += 1
                elif want != have:
                    # known behaviour: committed membership entries are executed again at apply time; a node that a
                    # LATER entry of the log removed (added) is then transiently re-added (re-removed)
                    applied_cmds = [m for m in (membership_of(e[0]) for e in log[:] if e[1] <= obj.raftLastApplied) if m is not None]
                    again = fold_members(sim, want, applied_cmds, name)
                    sig = 'member-set-differs-from-log' + (':entry-re-executed-at-apply' if again == have and applied_cmds else '')
                    sim.V('C10', sig, '%s holds member set %r, the membership commands in its log %r over its constructor set %r give %r' % (
                        name, sorted(have), cmds, sorted(base), sorted(want)))
            # leader-side gate
            if obj._isLeader() and last > prev:
                term = obj.raftCurrentTerm
                commit = obj.raftCommitIndex
                new = [e for e in log[:] if e[1] > prev and e[2] == term and membership_of(e[0]) is not None]
                for e in new:
                    earlier = [x for x in log[:] if commit < x[1] < e[1] and membership_of(x[0]) is not None]
                    if earlier:
                        sim.V('C10', 'change-appended-while-earlier-uncommitted',
                              'leader %s (term %d, commit %d) appended membership entry %r at %d while %r at %d is uncommitted' % (
                                  name, term, commit, membership_of(e[0])[:2], e[1], membership_of(earlier[0][0])[:2], earlier[0][1]))
                    ce = core.entry_at(obj, commit)
                    if ce is not None and ce[2] != term:
                        sim.V('C10', 'change-appended-before-own-term-commit',
                              'leader %s of term %d appended membership entry at %d although the newest committed entry (%d) is of term %d' % (name, term, e[1], commit, ce[2]))
            sim.prev_last[(name, sim.incarnation[name])] = last
            sim.prev_view[name] = sim.view_members(name)
        if sim.uncommitted_changes() and any(ev for ev in [sim.counters.get('leader_elected', 0)] if ev != getattr(sim, '_le_seen', 0)):
            sim.leader_change_during_change = True
        sim._le_seen = sim.counters.get('leader_elected', 0)
    sim.after_step_hooks.append(hook)


def strategy(tier):
    base = gen.case_strategy(140 if tier == 'quick' else 220, n_min=1, n_max=5, profiles=['mixed', 'pipelining', 'elections', 'faulty'],
                             fixed={'dynamic': True})
    return base


def run_case(case):
    cfg = dict(case['cfg'])
    cfg['target'] = list(OWN)
    cfg['dynamic'] = True
    sim = DynSim(cfg)
    install_monitors(sim)
    try:
        resolved = simprop.run_steps(sim, case, EXTRA)
        own = lambda: [v for v in sim.all_viol if v[0] in OWN and (OWN[v[0]] is None or v[1] in OWN[v[0]])]
        viol = None
        if not own() and not sim.viol:      # a monitor of another property stopped the case: state is tainted, no closing verdict
            sim.blocked = set()
            sim.quiet_config()

            def done():
                live = sim.live()
                ls = [n for n in live if sim.nodes[n]._isLeader()]
                if not live:
                    return True
                if len(ls) != 1:
                    return False
                mem = [n for n in sim.view_members(ls[0]) if n in sim.nodes]
                top = sim.nodes[ls[0]].raftCommitIndex
                return (core.log_of(sim.nodes[ls[0]])[-1][1] == top and
                        all(sim.nodes[n].raftLastApplied >= top and core.log_of(sim.nodes[n])[-1][1] == top for n in mem))
            for _ in range(600):
                sim.calm_round()
                sim.check(light=True)
                if sim.viol or done():
                    break
            if not own() and done() and sim.live():
                # agreement: every live node that is a member per the committed commands holds exactly that set
                init = set('n%d' % i for i in range(cfg['n']))
                cmds = [m for m in (membership_of(sim.G[p][0]) for p in sorted(sim.G)) if m is not None]
                final = fold_members(sim, init, cmds, None)
                views = dict((n, sorted(sim.view_members(n))) for n in sim.live() if n in final)
                if views and (len(set(map(tuple, views.values()))) != 1 or set(list(views.values())[0]) != final):
                    viol = ('members-disagree-after-quiet-phase', 'committed membership commands %r over %r give %r, but the members hold %r' % (
                        [c[:2] for c in cmds], sorted(init), sorted(final), views))
        classes = simprop.base_classes(sim)
        for r in sim.mreqs:
            for e in r['cbs']:
                classes.add('change-' + cluster.FR.get(e, str(e)))
        if sim.overlap_requests >= 1:
            classes.add('overlapping-change-requests')
        if sim.leader_change_during_change:
            classes.add('leader-change-during-change')
        if sim.counters.get('removed_node_shut_down'):
            classes.add('node-removed')
        if sim.counters.get('specsnap_completed'):
            classes.add('snapshot-with-uncommitted-change')
        if sim.counters.get('fold_checked_on_compacted_log'):
            classes.add('fold-checked-on-compacted-log')
        nontrivial = sim.overlap_requests >= 2 or sim.leader_change_during_change
        res = simprop.result_for(PROP, sim, resolved, nontrivial, classes)
        res.violation = None
        o = own()
        if o:
            unknown = [v for v in o if findings.match(PROP, v[1] if v[0] == PROP else '%s:%s' % (v[0], v[1])) is None]
            v = unknown[0] if unknown else o[0]
            res.violation = (v[1] if v[0] == PROP else '%s:%s' % (v[0], v[1]), v[2])
        elif viol:
            res.violation = viol
        return res
    finally:
        sim.destroy()


def shard(seed, n, tier):
    return simprop.standard_shard(PROP, strategy(tier), run_case, seed, n, tier)


def main(tier, seed, cases=None):
    return simprop.standard_main(PROP, LEVEL, __name__, RULE, ASSUMPTIONS, tier, seed, cases, quick=(8, 250), thorough=(16, 3000))


def replay(path):
    return runner.replay_file(PROP, path, run_case)
