"""C11 - arguments of any size and shape arrive intact on every replica."""
import os
import shutil
import time

from hypothesis import strategies as st

from ..sim import cluster, gen, simprop, core
from .. import runner, env, findings
from ..runner import Result
from pysyncobj import replicated

PROP = 'C11'
MANIFEST = {
    'engine': 'E1-sim',
    'level': 'exploration',
    'technique': 'Hypothesis-generated argument shapes and boundary-targeted sizes (k*batchSize +- band) through a healthy simulated cluster; round-trip oracle on every replica',
    'text': 'Each case calls a replicated method with generated positional/keyword arguments (recursive picklable shapes; byte strings sized k*batch+delta for a band of deltas around every multiple) on a healthy '
            '2-3 node cluster with memory or fresh 1 KiB file journals, batched or unbatched. Oracle: every replica executed the call exactly once with equal arguments, callback SUCCESS, no exception escaped '
            'tick or message handling. The quick tier enumerates the whole band for b=64 and b=100; thorough enumerates all listed batch sizes.',
    'note': 'In-order prompt delivery (the property is about inputs, not schedules); NaN excluded (NaN != NaN is an oracle artefact); sizes up to ~4x batch size and 300 KB (quick tier: at most 20000 transmission pieces per call).',
}
LEVEL = 'exploration'
RULE = ('case = (n in 2..3, batched?, batch size b, memory|file journal, list of calls; call = shape-generated args/kwargs or a byte string of length k*b+delta, k=1..4, delta in [-96,32]). '
        'non-trivial = at least one entry took the chunked path (>=2 transmission messages) or forced the journal file to grow; distinct = distinct case digests. '
        'band_cases counts the exhaustively enumerated (b,k,delta) sizes.')
ASSUMPTIONS = ['healthy cluster, FIFO prompt delivery', 'arguments are picklable with protocol 2 and compare equal to themselves']


class ArgProbe(core.Probe):
    @replicated
    def take(self, cid, *args, **kwargs):
        self._sim.on_apply(self, 'take', cid)
        self._sim.arg_log.append((self._simname, cid, args, kwargs))
        self.count += 1
        return cid

    @replicated
    def takekw(self, **kwargs):
        # keyword-only call: no positional argument at all (the id travels as a keyword too)
        kwargs = dict(kwargs)
        cid = kwargs.pop('cid_')
        self._sim.on_apply(self, 'takekw', cid)
        self._sim.arg_log.append((self._simname, cid, (), kwargs))
        self.count += 1
        return cid


class ArgSim(cluster.Sim):
    probe_class = ArgProbe

    def __init__(self, cfg, workdir=None):
        self.arg_log = []
        super(ArgSim, self).__init__(cfg, workdir)

    def decode(self, cmd):
        # the generic monitor expects the command id as first positional argument; takekw carries it as keyword
        d = super(ArgSim, self).decode(cmd)
        if d is not None and d[0] == 'takekw':
            c = core.ppickle.loads(bytes(cmd)[1:])
            kw = c[2] if isinstance(c, tuple) and len(c) > 2 else {}
            return ('takekw', (kw.get('cid_'),))
        return d

    def extend_model(self, upto):
        # the Probe fold model does not know 'take'; C11 has its own oracle
        self.model_pos = max(self.model_pos, upto)
        return False


# ------------------------------------------------------------------ value specs (JSON-able)

def build(spec):
    t = spec[0]
    if t == 'none':
        return None
    if t in ('bool', 'int', 'float', 'str'):
        return spec[1]
    if t == 'bytes':
        return bytes((spec[2] + i) % 256 for i in range(spec[1])) if spec[1] < 64 else (bytes(range(256)) * (spec[1] // 256 + 1))[:spec[1]]
    if t == 'list':
        return [build(x) for x in spec[1]]
    if t == 'tuple':
        return tuple(build(x) for x in spec[1])
    if t == 'set':
        return set(build(x) for x in spec[1])
    if t == 'dict':
        return dict((build(k), build(v)) for k, v in spec[1])
    raise ValueError(spec)


def _hashable():
    return st.one_of(
        st.tuples(st.just('int'), st.integers(-2 ** 70, 2 ** 70)),
        st.tuples(st.just('str'), st.text(max_size=12)),
        st.tuples(st.just('bytes'), st.integers(0, 20), st.integers(0, 255)),
        st.tuples(st.just('bool'), st.booleans()),
        st.tuples(st.just('none')),
    )


def value_spec():
    leaf = st.one_of(
        _hashable(),
        st.tuples(st.just('float'), st.floats(allow_nan=False)),
        st.tuples(st.just('bytes'), st.integers(0, 3000), st.integers(0, 255)),
        st.tuples(st.just('str'), st.text(max_size=200)),
    )
    return st.recursive(leaf, lambda ch: st.one_of(
        st.tuples(st.just('list'), st.lists(ch, max_size=4)),
        st.tuples(st.just('tuple'), st.lists(ch, max_size=4)),
        st.tuples(st.just('set'), st.lists(_hashable(), max_size=4)),
        st.tuples(st.just('dict'), st.lists(st.tuples(_hashable(), ch), max_size=4)),
    ), max_leaves=8)


KW = ['x', 'y', 'data', 'k_w', 'self_', 'cb']


def call_spec():
    shaped = st.fixed_dictionaries({'args': st.lists(value_spec(), max_size=3),
                                    'kwargs': st.lists(st.tuples(st.sampled_from(KW), value_spec()), max_size=2, unique_by=lambda t: t[0]),
                                    'kwonly': st.sampled_from([False, False, True])})
    sized = st.fixed_dictionaries({'k': st.integers(1, 4), 'delta': st.integers(-96, 32)})
    rnd = st.fixed_dictionaries({'size': st.integers(0, 300000)})
    return st.one_of(shaped, sized, sized, rnd)


def strategy(tier):
    return st.fixed_dictionaries({
        'n': st.integers(2, 3), 'batch': st.booleans(),
        'b': st.sampled_from([1, 2, 7, 64, 100, 1000, 4096, 65536]) | st.integers(1, 70000),
        'file': st.booleans(), 'rng': st.integers(0, 999),
        'on': st.integers(0, 2),
        'calls': st.lists(call_spec(), min_size=1, max_size=4),
    })


def run_case(case):
    wd = simprop.new_workdir('c11') if case['file'] else None
    cfg = {'n': case['n'], 'rng': case['rng'], 'batch': case['batch'], 'batch_bytes': case['b'],
           'journal': bool(case['file']), 'target': [PROP], 'compact_min_entries': 100000}
    sim = ArgSim(cfg, wd)
    viol = None
    classes = set()
    chunked = [0]
    sim.on_send_hooks.append(lambda x, y, g, m: chunked.__setitem__(0, chunked[0] + 1) if isinstance(m, dict) and m.get('transmission') else None)
    grew = False
    samples = []
    try:
        simprop.boot(sim, need_leader=True)
        leader = [n for n in sim.live() if sim.nodes[n]._isLeader()]
        if not leader:
            raise runner.HarnessError('no leader after boot in a healthy cluster: %r' % (sim.escaped[:3],))
        fsize0 = dict((n, os.path.getsize(os.path.join(wd, n + '.journal'))) for n in sim.voters) if wd else {}
        for ci, call in enumerate(case['calls']):
            if 'args' in call:
                args = [build(a) for a in call['args']]
                kwargs = dict((k, build(v)) for k, v in call['kwargs'])
                classes.add('shaped')
                if call.get('kwonly'):
                    args = []
                    classes.add('keyword-only-call')
            else:
                size = call['size'] if 'size' in call else max(0, call['k'] * case['b'] + call['delta'])
                if size > 400000:
                    size = size % 400000
                if env.tier() == 'quick' and size // max(1, case['b']) > 20000:
                    # quick tier: at most ~20000 transmission messages per call (a 300 KB argument in 1-2 byte
                    # pieces costs a minute); the thorough tier keeps the full size
                    size = case['b'] * 20000 + size % 7
                args = [(bytes(range(256)) * (size // 256 + 1))[:size]]
                kwargs = {}
                classes.add('sized' if 'k' in call else 'random-size')
            names = sim.live()
            name = names[case['on'] % len(names)]
            cid = sim.next_cid
            sim.next_cid += 1
            cbs = []
            obj = sim.nodes[name]
            if 'args' in call and call.get('kwonly'):
                sim.call(name, lambda: obj.takekw(callback=lambda r, e: cbs.append((r, e)), cid_=cid, **kwargs))
            else:
                sim.call(name, lambda: obj.take(cid, *args, callback=lambda r, e: cbs.append((r, e)), **kwargs))
            for _ in range(60):
                sim.calm_round()
                if cbs and all(sum(1 for e in sim.arg_log if e[0] == n and e[1] == cid) >= 1 for n in sim.live()):
                    break
            sim.check(light=True)
            desc = 'call %d on %s (b=%d, %s, %s journal): args %s kwargs %s' % (
                ci, name, case['b'], 'batched' if case['batch'] else 'unbatched', 'file' if case['file'] else 'memory',
                [_short(a) for a in args], dict((k, _short(v)) for k, v in kwargs.items()))
            if len(samples) < 3:
                samples.append(desc)
            if sim.escaped:
                e = sim.escaped[0]
                viol = ('exception-escaped:%s:%s' % (e[2], e[4].split(':')[0]), '%s: %s raised on %s at %s: %s' % (desc, e[2], e[1], e[4], e[3]))
                break
            for n in sim.live():
                got = [e for e in sim.arg_log if e[0] == n and e[1] == cid]
                if len(got) != 1:
                    viol = ('executed-%d-times' % len(got), '%s: replica %s executed it %d times (callback %r)' % (desc, n, len(got), cbs))
                    break
                if got[0][2] != tuple(args) or got[0][3] != kwargs:
                    viol = ('arguments-differ', '%s: replica %s saw args %s kwargs %s' % (desc, n, [_short(a) for a in got[0][2]], got[0][3]))
                    break
            if viol:
                break
            if cbs != [(cid, 0)]:
                viol = ('callback-not-success', '%s: callbacks %r' % (desc, cbs))
                break
        if wd:
            grew = any(os.path.getsize(os.path.join(wd, n + '.journal')) > fsize0[n] for n in sim.voters)
    finally:
        sim.destroy()
        if wd:
            shutil.rmtree(wd, ignore_errors=True)
    if chunked[0] >= 2:
        classes.add('chunked-entry')
    if grew:
        classes.add('journal-grew')
    return Result(nontrivial=(chunked[0] >= 2 or grew), classes=sorted(classes), violation=viol,
                  sample={'n': case['n'], 'b': case['b'], 'batch': case['batch'], 'file': case['file'], 'calls': samples})


def _short(v):
    if isinstance(v, (bytes, str)) and len(v) > 24:
        return '<%s len %d>' % (type(v).__name__, len(v))
    return v


def band_cases(tier):
    bs = [64, 100] if tier == 'quick' else [1, 2, 7, 64, 100, 1000, 4096, 65536]
    out = []
    for b in bs:
        for k in range(1, 5):
            for delta in range(-96, 33):
                if k * b + delta < 0:
                    continue
                for batch, file in ((True, False), (False, True)) if tier == 'quick' else ((True, False), (False, True), (True, True), (False, False)):
                    out.append({'n': 2, 'batch': batch, 'b': b, 'file': file, 'rng': 1, 'on': k % 2, 'calls': [{'k': k, 'delta': delta}]})
    return out


def shard(seed, n, tier, band=None):
    stats = runner.Stats()
    if band is not None:
        # exhaustive enumeration of the boundary band (no Hypothesis needed: finite domain)
        for case in band:
            res = run_case(case)
            stats.record(case, res)
            stats.extra['band_cases'] += 1
            if res.violation is not None:
                kf = findings.match(PROP, res.violation[0])
                if kf is not None:
                    stats.known[res.violation[0]] += 1
                    stats.known_what[res.violation[0]] = kf.get('what', '')
                elif not stats.violations:
                    stats.violations.append((res.violation[0], res.violation[1], case))
        return stats
    runner.explore(PROP, strategy(tier), run_case, n, seed, stats, shrink=True)
    return stats


def main(tier, seed, cases=None):
    t0 = time.time()
    shards, n = (4, 120) if tier == 'quick' else (12, 3000)
    if cases:
        n = cases
    band = band_cases(tier)
    nb = 4 if tier == 'quick' else 4
    kws = [dict(seed=seed * 1000 + i, n=n, tier=tier) for i in range(shards)]
    kws += [dict(seed=0, n=0, tier=tier, band=band[i::nb]) for i in range(nb)]
    stats = runner.run_shards(__name__, 'shard', kws)
    return runner.finish(PROP, LEVEL, tier, seed, stats, RULE, ASSUMPTIONS, t0)


def replay(path):
    return runner.replay_file(PROP, path, run_case)
