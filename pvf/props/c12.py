"""C12 - a replicated method that raises does not stall or split the cluster."""
import shutil
import time

from hypothesis import strategies as st

from ..sim import cluster, gen, simprop, core
from .. import runner, env
from ..runner import Result
from pysyncobj import replicated
from pysyncobj.batteries import ReplList, ReplSet

PROP = 'C12'
MANIFEST = {
    'engine': 'E1-sim',
    'level': 'exploration',
    'technique': 'Hypothesis-generated command histories in which any subset of commands raises, on a simulated cluster with restarts from the journal; reference model swallowing the same exceptions',
    'text': 'Histories mix succeeding and deterministically raising commands (a raising method on the object, ReplList.remove/pop and ReplSet.remove of missing elements) submitted on leaders and followers, '
            'with connection breaks and journal restarts. Oracle: each callback fires exactly once, every replica\'s applied index passes every command, later commands are applied, all replicas equal the reference model '
            '(which executes the same methods and swallows the same exception), and no exception escapes a tick.',
    'note': 'In half of the cases every node compacts its log at the end (snapshot of a state that went through raising commands) and one more command must be applied everywhere. Healthy closing phase (a callback is due); restarts are clean stop + start on the same journal; 2-3 voters.',
}
LEVEL = 'exploration'
RULE = ('case = (n 2-3, journal on/off, list of commands (kind, submitting node) interleaved with break/restart steps). '
        'non-trivial = >=1 raising command followed by >=1 non-raising command; distinct = distinct case digests')
ASSUMPTIONS = ['commands raise deterministically on every replica', 'the result reported for a raising command is not constrained (only that the callback fires once)']


class RProbe(core.Probe):
    def __init__(self, selfAddr, others, conf, sim, name, consumers=None):
        self.lst = ReplList()
        self.st = ReplSet()
        super(RProbe, self).__init__(selfAddr, others, conf, sim, name, consumers=[self.lst, self.st])

    @replicated
    def fail(self, cid):
        self._sim.on_apply(self, 'fail', cid)
        self.count += 1
        raise ValueError('deliberate failure %d' % cid)

    @replicated
    def fail3(self, cid, a, b):
        self.count += 1
        raise KeyError((cid, a, b))

    @replicated
    def failkw(self, cid=None, note=None):
        self.count += 1
        raise RuntimeError('deliberate failure %r %r' % (cid, note))

    def full_state(self):
        return (self.count, self.chain, list(self.lst.rawData()), sorted(self.st.rawData()))


class RSim(cluster.Sim):
    probe_class = RProbe

    def extend_model(self, upto):
        self.model_pos = max(self.model_pos, upto)
        return False


KINDS = ['append', 'fail', 'l_append', 'l_remove', 'l_pop', 's_add', 's_remove', 'break', 'restart', 'fail3', 'failkw', 'l_set', 'l_popdefault']


def strategy(tier):
    cmd = st.tuples(st.sampled_from(KINDS + ['append', 'l_append', 's_add', 'fail', 'l_remove', 's_remove']), st.integers(0, 4), st.integers(0, 3)).map(list)
    return st.fixed_dictionaries({
        'n': st.integers(2, 3), 'rng': st.integers(0, 999), 'journal': st.booleans(), 'batch': st.booleans(),
        'cmds': st.lists(cmd, min_size=1, max_size=14),
        'compact_end': st.booleans(),
    })


class Model(object):
    def __init__(self):
        self.count = 0
        self.chain = 0
        self.lst = []
        self.st = set()

    def apply(self, kind, args):
        try:
            if kind == 'append':
                self.chain = core.fold_hash(self.chain, 'append', args[0], args[1])
                self.count += 1
            elif kind in ('fail', 'fail3', 'failkw'):
                self.count += 1
                raise ValueError()
            elif kind == 'l_set':
                self.lst[args[0]] = args[1]
            elif kind == 'l_append':
                self.lst.append(args[0])
            elif kind == 'l_remove':
                self.lst.remove(args[0])
            elif kind == 'l_pop':
                self.lst.pop(*args)
            elif kind == 's_add':
                self.st.add(args[0])
            elif kind == 's_remove':
                self.st.remove(args[0])
            else:
                raise runner.HarnessError('unknown command kind %r' % (kind,))
            return False
        except (ValueError, KeyError, IndexError, RuntimeError):
            return True

    def state(self):
        return (self.count, self.chain, list(self.lst), sorted(self.st))


def run_case(case):
    wd = simprop.new_workdir('c12') if case['journal'] else None
    cfg = {'n': case['n'], 'rng': case['rng'], 'batch': case['batch'], 'journal': bool(case['journal']), 'target': [PROP],
           'compact_min_entries': 100000}
    sim = RSim(cfg, wd)
    model = Model()
    viol = None
    classes = set()
    trace = []
    subs = []
    raised_then_ok = False
    seen_raise = False
    try:
        simprop.boot(sim, need_leader=True)
        for kind, who, x in case['cmds']:
            names = sim.live()
            if kind == 'break':
                sim.op_break(who, 2, 2)
                trace.append(['break'])
                classes.add('break')
                continue
            if kind == 'restart':
                if not case['journal']:
                    continue
                name = sim.voters[who % len(sim.voters)]
                sim.stop_node(name, clean=True)
                for _ in range(3):
                    sim.calm_round()
                sim.restart_node(name)
                trace.append(['restart', name])
                classes.add('restart-from-journal')
                for _ in range(5):
                    sim.calm_round()
                continue
            name = names[who % len(names)]
            obj = sim.nodes[name]
            cid = sim.next_cid
            sim.next_cid += 1
            cbs = []
            cb = lambda r, e, cbs=cbs: cbs.append((repr(r)[:40], e))
            if kind == 'append':
                f = lambda: obj.append(cid, b'', callback=cb)
            elif kind == 'fail':
                f = lambda: obj.fail(cid, callback=cb)
            elif kind == 'fail3':
                f = lambda: obj.fail3(cid, x, 'b', callback=cb)
            elif kind == 'failkw':
                f = lambda: obj.failkw(cid=cid, note=x, callback=cb)
            elif kind == 'l_set':
                f = lambda: obj.lst.set(x + 3, cid, callback=cb)
            elif kind == 'l_popdefault':
                f = lambda: obj.lst.pop(callback=cb)
            elif kind == 'l_append':
                f = lambda: obj.lst.append(x, callback=cb)
            elif kind == 'l_remove':
                f = lambda: obj.lst.remove(x, callback=cb)
            elif kind == 'l_pop':
                f = lambda: obj.lst.pop(0, callback=cb)
            elif kind == 's_add':
                f = lambda: obj.st.add(x, callback=cb)
            else:
                f = lambda: obj.st.remove(x, callback=cb)
            sim.call(name, f)
            subs.append((cid, kind, x, name, cbs))
            trace.append([kind, x, name, 'leader' if obj._isLeader() else 'follower'])
            for _ in range(int(case['rng']) % 3):
                sim.calm_round()
        # closing phase: healthy cluster, everything must settle
        sim.blocked = set()
        sim.quiet_config()
        for _ in range(150):
            sim.calm_round()
            if all(cbs for _, _, _, _, cbs in subs) and len(set(sim.nodes[n].raftLastApplied for n in sim.live())) == 1:
                break
        # the order of the committed sequence decides what the model executes: read it from a node's log
        for kind, args in committed_cmds(sim):
            r = model.apply(kind, args)
            if r:
                seen_raise = True
                classes.add('raised:' + kind)
            elif seen_raise:
                raised_then_ok = True
        if sim.escaped:
            e = sim.escaped[0]
            viol = ('exception-escaped-tick:%s' % e[2], '%s escaped on %s at %s (step %d): %s; history %r' % (e[2], e[1], e[4], e[0], e[3], trace))
        if viol is None:
            for cid, kind, x, name, cbs in subs:
                if len(cbs) > 1:
                    viol = ('callback-fired-twice', '%s(cid %d) on %s: callbacks %r' % (kind, cid, name, cbs))
                    break
                if len(cbs) == 0 and name in sim.nodes and not any(t[0] in ('break', 'restart') for t in trace):
                    viol = ('callback-never-fired', '%s(cid %d) submitted on %s never got a callback in a healthy cluster; applied indices %r; history %r' % (
                        kind, cid, name, dict((n, sim.nodes[n].raftLastApplied) for n in sim.live()), trace))
                    break
        if viol is None:
            states = dict((n, sim.nodes[n].full_state()) for n in sim.live())
            applied = dict((n, sim.nodes[n].raftLastApplied) for n in sim.live())
            commit = max(sim.nodes[n].raftCommitIndex for n in sim.live())
            if any(a < commit for a in applied.values()):
                viol = ('replica-stalled', 'applied indices %r stay behind commit index %d after the closing phase; history %r' % (applied, commit, trace))
            elif len(set(map(repr, states.values()))) != 1:
                viol = ('replicas-differ', 'replica states differ: %r; history %r' % (states, trace))
            elif list(states.values())[0] != model.state():
                viol = ('state-differs-from-model', 'replicas %r, model %r; history %r' % (list(states.values())[0], model.state(), trace))
        if viol is None and case.get('compact_end'):
            # every node compacts its log (snapshot of a state that went through raising commands), then one more command:
            # the cluster must keep applying, with the same state everywhere
            esc0 = len(sim.escaped)
            for n in sim.live():
                sim.nodes[n].forceLogCompaction()
            for _ in range(300):
                sim.calm_round()
                ls = [n for n in sim.live() if sim.nodes[n]._isLeader()]
                if len(ls) == 1 and all(sim.nodes[n]._getLeader() is not None for n in sim.live()):
                    break
            name = sim.live()[0]
            cid = sim.next_cid
            sim.next_cid += 1
            cbs = []
            sim.call(name, lambda: sim.nodes[name].append(cid, b'', callback=lambda r, e: cbs.append(e)))
            for _ in range(150):
                sim.calm_round()
                if cbs and len(set(sim.nodes[n].raftLastApplied for n in sim.live())) == 1:
                    break
            classes.add('compaction-after-raising-commands')
            if cbs == [0]:
                model.apply('append', (cid, b''))
            states = dict((n, sim.nodes[n].full_state()) for n in sim.live())
            if sim.escaped[esc0:]:
                e = sim.escaped[esc0]
                viol = ('exception-escaped-tick:%s' % e[2], 'after log compaction: %s escaped on %s at %s: %s; history %r' % (e[2], e[1], e[4], e[3], trace))
            elif cbs and cbs != [0]:
                classes.add('post-compaction-submission-refused')       # e.g. LEADER_CHANGED after a restart: open outcome, no verdict
            elif not cbs and any(t[0] in ('break', 'restart') for t in trace):
                classes.add('post-compaction-submission-unanswered-after-faults')
            elif not cbs:
                viol = ('callback-never-fired', 'a command submitted on %s after every node compacted its log got callbacks %r; applied indices %r; history %r' % (
                    name, cbs, dict((n, sim.nodes[n].raftLastApplied) for n in sim.live()), trace))
            elif len(set(map(repr, states.values()))) != 1 or list(states.values())[0] != model.state():
                viol = ('state-differs-from-model', 'after log compaction and one more command: replicas %r, model %r; history %r' % (states, model.state(), trace))
    finally:
        sim.destroy()
        if wd:
            shutil.rmtree(wd, ignore_errors=True)
    return Result(nontrivial=raised_then_ok, classes=sorted(classes), violation=viol, sample={'n': case['n'], 'journal': case['journal'], 'history': trace[:20]})


def committed_cmds(sim):
    """(kind, args) of every committed regular command, in log order, decoded from the
    longest log among live nodes (this check never compacts)."""
    import pysyncobj.pickle as pp
    best = None
    for n in sim.live():
        obj = sim.nodes[n]
        log = core.log_of(obj)
        if best is None or len(log) > len(best[1]):
            best = (obj, log)
    obj, log = best
    commit = max(sim.nodes[n].raftCommitIndex for n in sim.live())
    out = []
    for e in log[:]:
        if e[1] > commit:
            break
        c = bytes(e[0])
        if c[:1] != b'\x00':
            continue
        d = pp.loads(c[1:])
        fid, args = (d[0], tuple(d[1])) if isinstance(d, tuple) else (d, ())
        m = obj._idToMethod[fid]
        owner = m.__self__
        name = m.__name__.rsplit('_v', 1)[0]
        if isinstance(owner, ReplList):
            kind = 'l_' + name
        elif isinstance(owner, ReplSet):
            kind = 's_' + name
        else:
            kind = name
        out.append((kind, args))
    return out


def shard(seed, n, tier):
    return simprop.standard_shard(PROP, strategy(tier), run_case, seed, n, tier)


def main(tier, seed, cases=None):
    return simprop.standard_main(PROP, LEVEL, __name__, RULE, ASSUMPTIONS, tier, seed, cases, quick=(12, 300), thorough=(16, 2500))


def replay(path):
    return runner.replay_file(PROP, path, run_case)
