"""C13 - TCP framing delivers each message once, in order and uncorrupted."""
import errno
import socket as real_socket
import struct
import time

from hypothesis import strategies as st

from .. import runner, env, findings
from ..runner import Result

PROP = 'C13'
MANIFEST = {
    'engine': 'E3-sock (connection level)',
    'level': 'exploration',
    'technique': 'Hypothesis-generated message sequences, send plans (short writes, EAGAIN, buffer capacity), receive fragmentation plans and byte-stream corruptions on two real TcpConnection objects over fake sockets and a mask-honouring fake poller; prefix/round-trip oracle; plus coverage-guided byte-level fuzzing of the receiver (atheris/libFuzzer) with the oracle inside the target',
    'text': 'Two TcpConnection objects are joined by an in-memory byte pipe. The generator chooses message sizes (0 .. several buffer sizes), how many bytes each socket.send accepts, EAGAINs, pipe capacity, how the stream is cut into recv() '
            'results (down to 1 byte, merged frames), and optionally a corruption of one frame (length smaller/larger/zero/negative/huge, payload bit flip, truncation + EOF, trailing garbage). Poller events are delivered only for subscribed masks. '
            'Oracle: without corruption the received list is at all times a prefix of the sent list and equals it once everything is flushed; with a corruption at frame i the frames before i arrive exactly once in order, no exception '
            'escapes the event callback, sequence numbers delivered afterwards strictly increase, and the connection ends disconnected (onDisconnected once) or delivers nothing further.',
    'note': 'Fake socket/poller are the trusted base (they implement only what TcpConnection uses: send/recv/getsockopt/close/fileno, READ/WRITE/ERROR masks). A corrupted frame that still decodes is not treated as invalid. '
            'The tail of a short write is flushed by later sends, as every caller in the package sends periodically.',
}
LEVEL = 'exploration'
RULE = ('case = (message sizes, or (1 case in 60) a bulk backlog of 70 KB - 2 MiB incompressible messages against buffers of 64 KiB - 2 MiB that fill at powers of two, recv buffer size, send plan, pipe capacity, recv fragmentation plan, event order, optional corruption of one frame, optional second life: the receiving connection object dies in the middle of a frame, is connected again and must deliver a second message list exactly). '
        'non-trivial = >=1 message was split across >=2 reads AND >=1 socket.send was short or refused; distinct = distinct case digests')
ASSUMPTIONS = ['fake socket semantics: send accepts a prefix or raises EAGAIN; recv returns available bytes up to the requested size or raises EAGAIN; EOF = empty read',
               'no timeouts (clock frozen) in this property']


class FakeSocket(object):
    _fd = [100]

    def __init__(self, pipe_out, pipe_in, plan):
        self.out = pipe_out        # Pipe we write to
        self.inp = pipe_in         # Pipe we read from
        self.plan = plan           # dict: send plan / recv plan
        self.closed = False
        FakeSocket._fd[0] += 1
        self.fd = FakeSocket._fd[0]
        self.short_sends = 0
        self.recv_calls = 0
        self.recv_budget = None
        self.first_in_event = True

    def fileno(self):
        return self.fd

    def setsockopt(self, *a):
        pass

    def setblocking(self, v):
        pass

    def getsockopt(self, level, opt):
        return 0

    def connect(self, addr):
        raise real_socket.error(errno.EINPROGRESS, 'in progress')

    def close(self):
        self.closed = True
        self.out.eof = True

    def send(self, data):
        if self.closed:
            raise real_socket.error(errno.EBADF, 'closed')
        sp = self.plan['send']
        v = sp[self.plan['si'] % len(sp)] if sp else 1 << 30
        self.plan['si'] += 1
        room = self.out.capacity - len(self.out.buf)
        if v == 0 or room <= 0:
            self.short_sends += 1
            raise real_socket.error(errno.EAGAIN, 'would block')
        n = min(v, room, len(data))
        if n < len(data):
            self.short_sends += 1
        self.out.buf += data[:n]
        self.out.total += n
        return n

    def recv(self, n):
        if self.closed:
            raise real_socket.error(errno.EBADF, 'closed')
        self.recv_calls += 1
        if self.recv_budget is not None and self.recv_budget <= 0:
            raise real_socket.error(errno.EAGAIN, 'would block')
        if not self.inp.buf:
            if self.inp.eof:
                return b''
            raise real_socket.error(errno.EAGAIN, 'would block')
        rp = self.plan['recv']
        v = rp[self.plan['ri'] % len(rp)] if rp else 1 << 30
        self.plan['ri'] += 1
        if v == 0 and self.first_in_event:
            v = 1           # a READ readiness event with data available: the first recv returns something
        self.first_in_event = False
        if v == 0:
            self.recv_budget = 0
            raise real_socket.error(errno.EAGAIN, 'would block')
        k = min(v, n, len(self.inp.buf))
        data = bytes(self.inp.buf[:k])
        del self.inp.buf[:k]
        return data


class Pipe(object):
    def __init__(self, capacity):
        self.buf = bytearray()
        self.capacity = capacity
        self.eof = False
        self.total = 0


class FakePoller(object):
    def __init__(self):
        self.subs = {}

    def subscribe(self, descr, callback, mask):
        self.subs[descr] = (callback, mask)

    def unsubscribe(self, descr):
        self.subs.pop(descr, None)

    def poll(self, timeout):
        pass


def strategy(tier):
    size = st.one_of(st.integers(0, 40), st.integers(0, 400), st.sampled_from([0, 1, 59, 60, 61, 63, 64, 65, 127, 128, 129, 1000, 5000]))
    crafted = [b'', b'\xff', b'0.', b'.', b'cno_such_module\nX\n.', b'\x80\x02]q\x00(K\x01', b'\x80\x05\x95\xff\xff\xff\xff\xff\xff\xff\x7f', b'(I1\nI2\nt', b'S\'abc\np0\n.', b'\x80\x02c__builtin__\neval\nq\x00.', b'I99999999999999999999999\n.', b'\x8c\x03abc\x94\x93.']
    corruption = st.one_of(
        st.none(), st.none(),
        st.fixed_dictionaries({'frame': st.integers(0, 7), 'kind': st.sampled_from(['len-smaller', 'len-larger', 'len-zero', 'len-negative', 'len-huge', 'bitflip', 'truncate-eof', 'garbage']),
                               'arg': st.integers(0, 1 << 16)}),
        # a well-formed frame (valid length, valid zlib stream) whose content is not a decodable pickle, or raw bytes that are not zlib
        st.fixed_dictionaries({'frame': st.integers(0, 7), 'kind': st.sampled_from(['payload-zlib-of', 'payload-zlib-of', 'payload-raw']),
                               'arg': st.integers(0, 1 << 16), 'bytes': st.one_of(st.sampled_from(crafted), st.binary(max_size=24)).map(lambda b: list(b))}))
    return st.fixed_dictionaries({
        'sizes': st.lists(size, min_size=1, max_size=8),
        'recv_buf': st.sampled_from([1, 3, 16, 64, 8192]),
        'send_plan': st.lists(st.sampled_from([0, 1, 2, 3, 7, 50, 1000, 1 << 20]), max_size=6),
        'recv_plan': st.lists(st.sampled_from([0, 1, 1, 2, 3, 5, 17, 100, 1 << 20]), max_size=8),
        'capacity': st.sampled_from([1, 5, 64, 300, 1 << 20]),
        'events': st.lists(st.integers(0, 3), max_size=40),
        'corrupt': corruption,
        # second life: the receiving connection object dies in the middle of a frame and is connected again (the
        # dialling side of the transport reuses its TcpConnection object); then further messages are sent
        'relife': st.one_of(st.none(), st.fixed_dictionaries({
            'size': size, 'cut': st.integers(0, 5000), 'sizes': st.lists(size, min_size=1, max_size=5),
            'recv_plan': st.lists(st.sampled_from([1, 2, 3, 5, 17, 100, 1 << 20]), max_size=6)})),
        # bulk: a backlog of megabytes (snapshot pieces, big entries, a slow peer) against socket buffers of 64 KiB .. 2 MiB that fill up
        # at arbitrary points, also exactly at powers of two; replaces sizes/plans of the case, no corruption
        'bulk': st.one_of(*([st.none()] * 59 + [st.fixed_dictionaries({
            'sizes': st.lists(st.sampled_from([70000, 1 << 17, 1 << 18, 1 << 18, 1 << 19, (1 << 20) - 4096, 1 << 20, (1 << 20) + 4096]), min_size=1, max_size=4),
            'send_plan': st.lists(st.sampled_from([0, 0, 1 << 16, 1 << 19, 1 << 20, 1 << 20, (1 << 20) + 1, 1 << 21, 1 << 30]), max_size=6),
            'capacity': st.sampled_from([1 << 16, 1 << 17, 1 << 20, 1 << 20, 3 << 19, 1 << 21, 1 << 30]),
            'events': st.lists(st.sampled_from([0, 0, 0, 1, 1, 2, 3]), max_size=20)})])),
    })


_installed = [False]


def install():
    if _installed[0]:
        return
    import pysyncobj.tcp_connection as T
    T.monotonicTime = lambda: 1000.0
    _installed[0] = True


def payload(seq, size):
    if size > 65536:
        # bulk messages: incompressible, so that the frame on the wire is as long as the message (megabytes of backlog)
        import random
        return random.Random(seq * 1000003 + size).randbytes(size)
    return bytes((seq * 31 + i * 7) % 256 for i in range(min(size, 64))) + b'\xab' * max(0, size - 64)


def run_case(case):
    if 'fuzz_hex' in case:
        from ..fuzz import c13_target
        try:
            c13_target.run(bytes.fromhex(case['fuzz_hex']))
        except c13_target.TargetFailure as e:
            return Result(nontrivial=True, classes=['fuzz-input'], violation=('fuzz:' + str(e).split(':')[0][:60], '%s; input %s' % (e, case['fuzz_hex'][:200])), sample=case)
        return Result(nontrivial=True, classes=['fuzz-input'], violation=None, sample=case)
    install()
    import pysyncobj.tcp_connection as T
    from pysyncobj.poller import POLL_EVENT_TYPE as EV
    bulk = case.get('bulk')
    if bulk:
        case = dict(case, sizes=bulk['sizes'], send_plan=bulk['send_plan'], capacity=bulk['capacity'], events=bulk['events'],
                    recv_buf=65536, recv_plan=[1 << 20], corrupt=None, relife=None)
    poller = FakePoller()
    ab = Pipe(case['capacity'])
    ba = Pipe(1 << 20)
    plan_a = {'send': case['send_plan'], 'si': 0, 'recv': [], 'ri': 0}
    plan_b = {'send': [], 'si': 0, 'recv': case['recv_plan'], 'ri': 0}
    sa = FakeSocket(ab, ba, plan_a)
    sb = FakeSocket(ba, ab, plan_b)
    received = []
    disc = {'s': 0, 'r': 0}
    escaped = []
    class Flood(Exception):
        pass

    def on_msg(m):
        received.append(m)
        if len(received) > 3 * len(case['sizes']) + 20:
            raise Flood('receiver delivered %d messages, only %d were sent' % (len(received), len(case['sizes'])))
    S = T.TcpConnection(poller, socket=sa, timeout=1e9, recvBufferSize=case['recv_buf'], onDisconnected=lambda: disc.__setitem__('s', disc['s'] + 1))
    R = T.TcpConnection(poller, socket=sb, timeout=1e9, recvBufferSize=case['recv_buf'],
                        onMessageReceived=on_msg, onDisconnected=lambda: disc.__setitem__('r', disc['r'] + 1))
    msgs = [(i, payload(i, sz)) for i, sz in enumerate(case['sizes'])]
    # frame boundaries in the byte stream (for corruption placement): computed with the real encoder on a scratch connection
    bounds = []
    enc_pipe = Pipe(1 << 30)
    enc = T.TcpConnection(FakePoller(), socket=FakeSocket(enc_pipe, Pipe(1), {'send': [], 'si': 0, 'recv': [], 'ri': 0}), timeout=1e9)
    for m in msgs:
        start = len(enc_pipe.buf)
        enc.send(m)
        bounds.append((start, len(enc_pipe.buf)))
    corrupt = case['corrupt']
    cframe = None
    if corrupt is not None:
        cframe = corrupt['frame'] % len(msgs)
    corrupted_applied = [False]
    max_reads_per_msg = [0]

    def call(conn_sock, mask):
        sub = poller.subs.get(conn_sock.fd)
        if sub is None:
            return False
        cb, m = sub
        ev = mask & m
        if not ev:
            return False
        try:
            cb(conn_sock.fd, ev)
        except Exception as e:
            import traceback
            tb = traceback.extract_tb(e.__traceback__)
            escaped.append('%s: %s at %s:%d' % (type(e).__name__, e, tb[-1].filename.split('/')[-1], tb[-1].lineno))
        return True

    def apply_corruption():
        """Corrupt frame cframe in the A->B pipe once all of its bytes (and, for length changes, its header) are in the pipe and none were read."""
        if corrupt is None or corrupted_applied[0]:
            return
        start, end = bounds[cframe]
        consumed = ab.total - len(ab.buf)
        if consumed > start or ab.total < end:
            return
        off = start - consumed
        ln = end - start - 4
        kind, arg = corrupt['kind'], corrupt['arg']
        if kind == 'len-smaller':
            newl = arg % ln if ln > 0 else 0
            ab.buf[off:off + 4] = struct.pack('i', newl)
        elif kind == 'len-larger':
            ab.buf[off:off + 4] = struct.pack('i', ln + 1 + arg % 50)
        elif kind == 'len-zero':
            ab.buf[off:off + 4] = struct.pack('i', 0)
        elif kind == 'len-negative':
            ab.buf[off:off + 4] = struct.pack('i', -1 - (arg % 300))
        elif kind == 'len-huge':
            ab.buf[off:off + 4] = struct.pack('i', 0x7fffffff - arg % 1000)
        elif kind == 'bitflip':
            if ln > 0:
                pos = off + 4 + arg % ln
                ab.buf[pos] ^= 1 << (arg % 8)
            else:
                ab.buf[off] ^= 1
        elif kind == 'truncate-eof':
            cut = off + 1 + arg % max(1, (end - start - 1))
            del ab.buf[cut:]
            ab.eof = True
            ab.capacity = 0
        elif kind in ('payload-zlib-of', 'payload-raw'):
            import zlib
            body = bytes(corrupt['bytes'])
            body = zlib.compress(body, 3) if kind == 'payload-zlib-of' else body
            ab.buf[off:off + (end - start)] = struct.pack('i', len(body)) + body
            shift = len(body) + 4 - (end - start)
            for i in range(len(bounds)):
                if i > cframe:
                    bounds[i] = (bounds[i][0] + shift, bounds[i][1] + shift)
            ab.total += shift
        elif kind == 'garbage':
            g = bytes((arg + i * 13) % 256 for i in range(1 + arg % 9))
            ab.buf[off + (end - start):off + (end - start)] = g
        corrupted_applied[0] = True

    viol = None
    next_msg = 0
    sent_all = False

    def check_prefix(where):
        if corrupted_applied[0]:
            good = received[:cframe]
            if good != [tuple(m) if False else m for m in msgs[:len(good)]] and received[:len(good)] != msgs[:len(good)]:
                return ('frames-before-corruption-wrong', '%s: received %r' % (where, summary(received)))
            seqs = [m[0] for m in received if isinstance(m, tuple) and len(m) == 2 and isinstance(m[0], int)]
            if any(b <= a for a, b in zip(seqs, seqs[1:])):
                return ('delivered-twice-or-out-of-order', '%s: sequence numbers delivered %r' % (where, seqs))
            return None
        if received != msgs[:len(received)]:
            return ('received-not-a-prefix-of-sent', '%s: sent %r, received %r' % (where, summary(msgs), summary(received)))
        return None

    events = list(case['events'])
    steps = 0
    reads_before = 0
    while steps < 400 and viol is None:
        steps += 1
        ev = events.pop(0) if events else (steps % 3 + 1 if sent_all else 0)
        if ev == 0 and next_msg < len(msgs):
            if S.state == T.CONNECTION_STATE.CONNECTED:
                try:
                    S.send(msgs[next_msg])
                except Exception as e:
                    escaped.append('send raised %r' % (e,))
            next_msg += 1
            if next_msg == len(msgs):
                sent_all = True
        elif ev == 1:
            if S.getSendBufferSize() > 0:
                call(sa, EV.WRITE)
        elif ev == 2:
            apply_corruption()
            if ab.buf or ab.eof:
                sb.recv_budget = None
                sb.first_in_event = True
                n0 = len(received)
                c0 = sb.recv_calls
                call(sb, EV.READ)
                if len(received) > n0 and sb.recv_calls - c0 >= 2:
                    pass
        elif ev == 3:
            # flush helper: a tiny extra send is what periodic callers provide; modelled as another WRITE attempt via send of nothing new
            if S.getSendBufferSize() > 0 and S.state == T.CONNECTION_STATE.CONNECTED:
                call(sa, EV.WRITE) or S._TcpConnection__trySendBuffer()
        if escaped:
            viol = ('exception-escaped', '%s; case sizes %r' % (escaped[0], case['sizes']))
            break
        viol = check_prefix('step %d' % steps)
        if sent_all and not events:
            if R.state == T.CONNECTION_STATE.DISCONNECTED or S.state == T.CONNECTION_STATE.DISCONNECTED:
                break
            if S.getSendBufferSize() == 0 and not ab.buf:
                break
            if corrupted_applied[0] and steps > 300:
                break
    # final flush loop (no corruption): everything must arrive
    # from here on the network makes progress: a plan of EAGAINs only would be a network that never delivers
    plan_a['send'] = [v or (1 << 16 if bulk else 1) for v in plan_a['send']]
    if viol is None and not corrupted_applied[0] and corrupt is None:
        for _ in range(20000):
            if S.getSendBufferSize() > 0:
                if not call(sa, EV.WRITE):
                    S._TcpConnection__trySendBuffer()
            if ab.buf:
                sb.recv_budget = None
                sb.first_in_event = True
                call(sb, EV.READ)
            if escaped:
                break
            if S.getSendBufferSize() == 0 and not ab.buf:
                break
        if escaped:
            viol = ('exception-escaped', escaped[0])
        elif received != msgs:
            viol = ('not-all-delivered', 'sent %r, received %r after flushing (send buffer %d, pipe %d)' % (summary(msgs), summary(received), S.getSendBufferSize(), len(ab.buf)))
        elif disc['r'] or disc['s']:
            viol = ('spurious-disconnect', 'disconnect callbacks %r without any fault' % (disc,))
    if viol is None and corrupted_applied[0]:
        # drain what is left and let the receiver see it
        for _ in range(3000):
            if R.state == T.CONNECTION_STATE.DISCONNECTED:
                break
            if S.getSendBufferSize() > 0 and S.state == T.CONNECTION_STATE.CONNECTED:
                if not call(sa, EV.WRITE):
                    S._TcpConnection__trySendBuffer()
            if ab.buf or ab.eof:
                sb.recv_budget = None
                sb.first_in_event = True
                call(sb, EV.READ)
            elif S.getSendBufferSize() == 0:
                break
            if escaped:
                break
        if escaped:
            viol = ('exception-escaped', escaped[0] + ' (after corruption %r)' % (corrupt,))
        else:
            viol = check_prefix('end')
        if viol is None and disc['r'] > 1:
            viol = ('onDisconnected-twice', 'receiver onDisconnected called %d times' % disc['r'])
        if viol is None and R.state == T.CONNECTION_STATE.DISCONNECTED and disc['r'] != 1:
            viol = ('disconnected-without-callback', 'receiver is DISCONNECTED but onDisconnected was called %d times' % disc['r'])
    relife = case.get('relife')
    relived = False
    if viol is None and relife is not None:
        n0 = len(received)
        if R.state != T.CONNECTION_STATE.DISCONNECTED:
            # a frame arrives partly (at least its header), then the connection ends
            p0 = len(enc_pipe.buf)
            enc.send(('dying', payload(99, relife['size'])))
            frame = bytes(enc_pipe.buf[p0:])
            cut = 4 + relife['cut'] % max(1, len(frame) - 4)
            ab.capacity = 1 << 30
            ab.buf += frame[:cut]
            ab.eof = True
            for _ in range(5000):
                if R.state == T.CONNECTION_STATE.DISCONNECTED or escaped:
                    break
                sb.recv_budget = None
                sb.first_in_event = True
                if not call(sb, EV.READ):
                    break
        if not escaped and R.state == T.CONNECTION_STATE.DISCONNECTED:
            n0 = len(received)
            d0 = disc['r']
            ab2, ba2 = Pipe(1 << 30), Pipe(1 << 30)
            sb2 = FakeSocket(ba2, ab2, {'send': [], 'si': 0, 'recv': relife['recv_plan'], 'ri': 0})
            sa2 = FakeSocket(ab2, ba2, {'send': [], 'si': 0, 'recv': [], 'ri': 0})

            class Shim(object):
                def __getattr__(self, name):
                    return getattr(real_socket, name)

                def socket(self, *a, **kw):
                    return sb2
            saved = T.socket
            T.socket = Shim()
            try:
                ok = R.connect('10.9.9.9', 4321)
            finally:
                T.socket = saved
            if ok:
                call(sb2, EV.WRITE)
            if not ok or R.state != T.CONNECTION_STATE.CONNECTED:
                viol = ('reconnect-failed', 'connect() of the reused connection object returned %r, state %r; escaped %r' % (ok, R.state, escaped[:1]))
            else:
                relived = True
                S2 = T.TcpConnection(poller, socket=sa2, timeout=1e9, recvBufferSize=case['recv_buf'])
                msgs2 = [(1000 + i, payload(50 + i, sz)) for i, sz in enumerate(relife['sizes'])]
                for m in msgs2:
                    S2.send(m)
                for _ in range(20000):
                    if S2.getSendBufferSize() > 0:
                        if not call(sa2, EV.WRITE):
                            S2._TcpConnection__trySendBuffer()
                    if ab2.buf:
                        sb2.recv_budget = None
                        sb2.first_in_event = True
                        call(sb2, EV.READ)
                    if escaped or R.state == T.CONNECTION_STATE.DISCONNECTED:
                        break
                    if S2.getSendBufferSize() == 0 and not ab2.buf:
                        break
                got2 = received[n0:]
                if escaped:
                    viol = ('exception-escaped', escaped[0] + ' (second life of the receiving connection)')
                elif got2 != msgs2:
                    viol = ('second-life-messages-wrong', 'the connection object died in the middle of a frame and was connected again; then sent %r, received %r (state %r)' % (
                        summary(msgs2), summary(got2), R.state))
                elif disc['r'] != d0:
                    viol = ('spurious-disconnect', 'second life: disconnect callback without a fault')
                try:
                    S2.disconnect()
                except Exception:
                    pass
    classes = set()
    if relived:
        classes.add('connection-object-reused-after-mid-frame-death')
    if bulk:
        classes.add('bulk-backlog-of-megabytes')
    split = sb.recv_calls > len(msgs) + 2
    if sa.short_sends:
        classes.add('short-or-refused-send')
    if split:
        classes.add('split-reads')
    if corrupted_applied[0]:
        classes.add('corrupt:' + corrupt['kind'])
        classes.add('receiver-disconnected' if R.state == T.CONNECTION_STATE.DISCONNECTED else 'receiver-still-connected')
    try:
        S.disconnect()
        R.disconnect()
    except Exception:
        pass
    return Result(nontrivial=bool(split and sa.short_sends), classes=sorted(classes), violation=viol,
                  sample={'sizes': case['sizes'], 'recv_buf': case['recv_buf'], 'send_plan': case['send_plan'], 'recv_plan': case['recv_plan'],
                          'capacity': case['capacity'], 'corrupt': corrupt, 'received': len(received)})


def summary(ms):
    return [(m[0], len(m[1])) if isinstance(m, tuple) and len(m) == 2 and isinstance(m[1], (bytes, str)) else repr(m)[:30] for m in ms]


def shard(seed, n, tier):
    stats = runner.Stats()
    runner.explore(PROP, strategy(tier), run_case, n, seed, stats, shrink=True)
    return stats


def fuzz_campaign(tier, seed, stats):
    """Coverage-guided byte-level fuzzing of the receiver (atheris/libFuzzer) with the oracle inside the target.
    Seed corpus: valid frames, frames holding zlib(crafted non-pickles), raw garbage; plus an empty-corpus run."""
    import glob
    import os
    import shutil
    import subprocess
    import sys
    import zlib
    try:
        sys.path.insert(0, env.DEPS)
        import atheris  # noqa
    except Exception as e:
        stats.inconclusive.append('atheris not available (%r): byte-level fuzzing skipped' % (e,))
        return
    base = os.path.join(env.tmpdir(), 'c13-fuzz')
    shutil.rmtree(base, ignore_errors=True)
    jobs = [('seeded', True), ('empty', False)] if tier == 'quick' else [('seeded%d' % i, True) for i in range(10)] + [('empty%d' % i, False) for i in range(6)]
    procs = []
    for i, (name, seeded) in enumerate(jobs):
        corpus = os.path.join(base, name, 'corpus')
        art = os.path.join(base, name, 'artifacts') + os.sep
        os.makedirs(corpus)
        os.makedirs(art)
        if seeded:
            crafted = [b'', b'\xff', b'0.', b'.', b'cno_such_module\nX\n.', b'(I1\nI2\nt', b'\x80\x02]q\x00(K\x01', b'I99999999999999999999\n.', b'\x80\x02K\x01.']
            for k, body in enumerate(crafted):
                z = zlib.compress(body, 3)
                for hdr in (bytes([k % 4, k % 5, k % 5]),):
                    with open(os.path.join(corpus, 'z%d' % k), 'wb') as f:
                        f.write(hdr + struct.pack('i', len(z)) + z)
            with open(os.path.join(corpus, 'neg'), 'wb') as f:
                f.write(bytes([2, 1, 1]) + struct.pack('i', -3) + b'abcdef')
            with open(os.path.join(corpus, 'huge'), 'wb') as f:
                f.write(bytes([1, 0, 2]) + struct.pack('i', 0x7fffffff) + b'abc')
        args = [sys.executable, '-m', 'pvf.fuzz.c13_fuzz', '-seed=%d' % (seed * 100 + i), '-max_len=400', '-artifact_prefix=' + art, '-print_final_stats=1']
        args += ['-runs=40000'] if tier == 'quick' else ['-max_total_time=420']
        args.append(corpus)
        procs.append((name, art, subprocess.Popen(args, cwd=env.VERIF, stdout=subprocess.PIPE, stderr=subprocess.STDOUT)))
    for name, art, pr in procs:
        out = pr.communicate()[0].decode('utf8', 'replace')
        runs = 0
        for line in out.splitlines():
            if line.startswith('stat::number_of_executed_units:'):
                runs = int(line.split(':')[-1])
        stats.extra['fuzz_executions'] += runs
        stats.evaluations += runs
        crashes = sorted(glob.glob(art + 'crash-*'))
        if crashes:
            with open(crashes[0], 'rb') as f:
                data = f.read()
            case = {'fuzz_hex': data.hex()}
            res = run_case(case)
            stats.record(case, res)
            if res.violation is not None and findings.match(PROP, res.violation[0]) is None:
                stats.violations.append((res.violation[0], res.violation[1], case))
            elif res.violation is None:
                stats.inconclusive.append('libFuzzer reported a crash that does not reproduce in-process: %s' % out[-400:])
        elif pr.returncode not in (0,):
            stats.inconclusive.append('fuzz job %s exited with %r: %s' % (name, pr.returncode, out[-300:]))
    shutil.rmtree(base, ignore_errors=True)


def main(tier, seed, cases=None):
    t0 = time.time()
    shards, n = (4, 1500) if tier == 'quick' else (16, 40000)
    if cases:
        n = cases
    kws = [dict(seed=seed * 1000 + i, n=n, tier=tier) for i in range(shards)]
    stats = runner.run_shards(__name__, 'shard', kws)
    fuzz_campaign(tier, seed, stats)
    return runner.finish(PROP, LEVEL, tier, seed, stats, RULE + ' Plus a coverage-guided byte-level campaign (atheris) on the receiver: fuzz_executions counts its runs.', ASSUMPTIONS, t0)


def replay(path):
    return runner.replay_file(PROP, path, run_case)
