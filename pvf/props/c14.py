"""C14 - transport keeps one live connection per peer and reports it truthfully."""
import time

from hypothesis import strategies as st

from .. import runner, env, findings
from ..runner import Result
from ..sock import kernel as K

PROP = 'C14'
MANIFEST = {
    'engine': 'E3-sock',
    'level': 'fault_enumeration',
    'technique': 'Hypothesis-generated connection-level fault sequences (refuse, reset, black-hole until timeout, half-open after host loss, stale connection replaced and its late FIN/RST, restarts, partitions, node drop/add) on 2-4 real TCPTransport objects plus 0-2 read-only observers (transport without own address) over a '
                 'simulated socket kernel and poller under virtual time; ghost-tagged messages; bounded-time reconnection oracle',
    'text': 'Real TCPTransport/TcpConnection/TcpServer code runs on a fake `socket` module and poller (pysyncobj.tcp_connection.socket, tcp_server.socket, monotonicTime replaced). Every message carries its true sender. '
            'At all times: a message delivered as coming from node X was sent by X, X is a current member of the receiver (never a non-member or a node removed with dropNode); send() returns True only on a CONNECTED connection object. '
            'After the faults stop, within SYN timeout + connectionRetryTime + slack of virtual time every pair of members has exactly one established kernel connection that both transports\' connection maps point to, both sides were told '
            '"connected", send() returns True and a probe sent each way is delivered exactly once as coming from its sender. Read-only observers: every message delivered under a read-only id comes from an observer process (never attributed to a member), '
            'one id never carries two processes, an id is announced before it delivers and never reused; after the faults stop every voter knows exactly one announced id per observer, backed by the one established kernel connection, and probes '
            'voter->observer (tagged with the intended observer) and observer->voter arrive exactly once.',
    'note': 'The kernel model (pvf/sock/kernel.py) is the trusted base: instant in-order delivery, FIN on close, RST, black-hole, half-open, keepalive only if the socket options were set, SYN timeout 63 s. Periodic sends (as SyncObj heartbeats do) drive timeout detection.',
}
LEVEL = 'fault_enumeration'
RULE = ('case = (2-4 nodes, 0-2 read-only observers, keepalive on/off, connectionRetryTime, step list <=120 of tick/advance/send/refuse-next/blackhole-next/reset/blackhole/vanish+restart/clean restart/partition/heal/dropnode/addnode). '
        'non-trivial = a stale connection was replaced by a new incoming one, or a black-holed/half-open connection was detected by timeout, keepalive or RST; distinct = distinct case digests')
ASSUMPTIONS = ['kernel model as described in pvf/sock/kernel.py', 'every node sends to every peer periodically (as the Raft layer does)']

_inst = {}


def install(kern):
    import pysyncobj.tcp_connection as TC
    import pysyncobj.tcp_server as TS
    import pysyncobj.transport as TR
    mod = K.FakeSocketModule(kern)
    TC.socket = mod
    TS.socket = mod
    TC.monotonicTime = kern.clock.now
    TR.monotonicTime = kern.clock.now


class StubSyncObj(object):
    def __init__(self, kern, name, conf):
        self.conf = conf
        self._poller = K.FakePoller(kern, name)
        self.encryptor = None
        self.tick_cbs = []

    def addOnTickCallback(self, cb):
        self.tick_cbs.append(cb)

    def removeOnTickCallback(self, cb):
        if cb in self.tick_cbs:
            self.tick_cbs.remove(cb)


class Node(object):
    def __init__(self, h, name):
        self.h = h
        self.name = name
        self.members = set()
        self.connected = set()
        self.received = []
        self.events = []
        self.ro = False
        self.start()

    def start(self):
        from pysyncobj import SyncObjConf
        from pysyncobj.transport import TCPTransport
        from pysyncobj.node import TCPNode
        h = self.h
        conf = SyncObjConf(autoTick=False, connectionTimeout=3.5, connectionRetryTime=h.retry, tcp_keepalive=(16, 3, 5) if h.keepalive else None,
                           recvBufferSize=h.rbuf)
        self.so = StubSyncObj(h.kern, self.name, conf)
        h.kern.current = self.name
        self.selfnode = None if self.ro else TCPNode(h.addr[self.name])      # read-only node: no own address, dials every voter
        others = [TCPNode(h.addr[m]) for m in sorted(self.members)]
        self.tr = TCPTransport(self.so, self.selfnode, others)
        self.tr.setOnMessageReceivedCallback(self.on_msg)
        self.tr.setOnNodeConnectedCallback(lambda n: self.on_conn(n, True))
        self.tr.setOnNodeDisconnectedCallback(lambda n: self.on_conn(n, False))
        self.tr.setOnReadonlyNodeConnectedCallback(lambda n: self.on_ro(n, True))
        self.tr.setOnReadonlyNodeDisconnectedCallback(lambda n: self.on_ro(n, False))
        self.connected = set()
        self.ro_connected = {}      # node id -> Node object of the read-only peers this transport announced (and has not reported gone)
        self.ro_ids = {}            # node id -> ghost name of the process whose messages arrived under that id
        self.alive = True

    def on_ro(self, node, up):
        h = self.h
        if getattr(node, 'address', None) is not None or self.ro:
            h.V('readonly-notification-for-a-member', '%s was told read-only node %r %s' % (self.name, node, 'connected' if up else 'disconnected'))
            return
        if up:
            if node.id in self.ro_connected or node.id in self.ro_ids:
                h.V('readonly-id-reused', '%s: id %r announced for a second read-only connection' % (self.name, node.id))
            self.ro_connected[node.id] = node
            h.counters['readonly-connected'] += 1
        else:
            if node.id not in self.ro_connected:
                h.V('readonly-disconnect-without-connect', '%s: read-only id %r reported gone but was never announced' % (self.name, node.id))
            self.ro_connected.pop(node.id, None)
            h.counters['readonly-disconnected'] += 1

    def on_msg(self, node, m):
        h = self.h
        if getattr(node, 'address', None) is None:
            # attributed to a read-only peer (plain Node with a per-transport counter id)
            self.received.append((('ro', node.id), m))
            src = m.get('from') if isinstance(m, dict) else None
            if self.ro or src not in h.ro_names:
                h.V('message-attributed-to-wrong-sender', '%s received %r as coming from read-only id %r' % (self.name, m, node.id))
            elif node.id not in self.ro_connected:
                h.V('message-from-unannounced-readonly-node', '%s received %r under read-only id %r which is not announced as connected (%r)' % (
                    self.name, m, node.id, sorted(self.ro_connected)))
            elif self.ro_ids.setdefault(node.id, src) != src:
                h.V('readonly-id-shared-by-two-senders', '%s: id %r carried messages of %s and of %s' % (self.name, node.id, self.ro_ids[node.id], src))
            if isinstance(m, dict) and 'probe' in m:
                h.probes_got[(m['from'], self.name, m['probe'])] += 1
            return
        sender = h.addr2name.get(getattr(node, 'address', None))
        self.received.append((sender, m))
        if isinstance(m, dict) and m.get('for') is not None and m['for'] != self.name:
            h.V('message-for-another-readonly-node', '%s received %r' % (self.name, m))
        if not isinstance(m, dict) or m.get('from') != sender:
            h.V('message-attributed-to-wrong-sender', '%s received %r as coming from %s' % (self.name, m, sender))
        elif sender not in self.members:
            h.V('message-from-non-member', '%s received %r from %s which is not among its members %r' % (self.name, m, sender, sorted(self.members)))
        if isinstance(m, dict) and 'probe' in m:
            h.probes_got[(m['from'], self.name, m['probe'])] += 1

    def on_conn(self, node, up):
        h = self.h
        peer = h.addr2name.get(node.address)
        if up:
            if peer in self.connected:
                h.counters['connected-again-without-disconnect'] += 1
                h.stale_replaced = True
            self.connected.add(peer)
        else:
            if peer not in self.connected:
                h.counters['disconnect-without-connect'] += 1      # e.g. a refused connect attempt: harmless, receivers discard
            self.connected.discard(peer)
        self.events.append((h.kern.clock.now(), peer, up))


class Harness(object):
    def __init__(self, case):
        import collections
        self.kern = K.Kernel()
        install(self.kern)
        self.names = ['n%d' % i for i in range(case['n'])]
        self.addr = dict((n, '10.0.0.%d:4321' % (i + 1)) for i, n in enumerate(self.names))
        self.addr2name = dict((v, k) for k, v in self.addr.items())
        for i, n in enumerate(self.names):
            self.kern.host2proc['10.0.0.%d' % (i + 1)] = n
        self.keepalive = case['keepalive']
        self.retry = case['retry']
        self.rbuf = case.get('rbuf', 8192)
        self.viol = []
        self.counters = collections.Counter()
        self.probes_got = collections.Counter()
        self.stale_replaced = False
        self.detected = False
        self.seq = 0
        self.nodes = {}
        self.ro_names = ['r%d' % i for i in range(case.get('ro', 0))]
        self.all_names = self.names + self.ro_names
        for n in self.all_names:
            nd = Node.__new__(Node)
            nd.h, nd.name = self, n
            nd.ro = n in self.ro_names
            nd.members = set(m for m in self.names if m != n)
            nd.connected, nd.received, nd.events = set(), [], []
            self.nodes[n] = nd
        for n in self.all_names:
            self.nodes[n].start()

    def V(self, sig, detail):
        if not self.viol:
            self.viol.append((sig, 't=%.1f: %s' % (self.kern.clock.now() - 10000.0, detail)))

    def call(self, name, fn, *a):
        self.kern.current = name
        try:
            return fn(*a)
        except Exception as e:
            import traceback
            tb = traceback.extract_tb(e.__traceback__)
            self.V('exception-escaped:%s' % type(e).__name__, '%s raised %r at %s:%d' % (name, e, tb[-1].filename.split('/')[-1], tb[-1].lineno))

    def tick(self, name):
        nd = self.nodes[name]
        if not nd.alive:
            return
        before = set(nd.connected)
        for cb in list(nd.so.tick_cbs):
            self.call(name, cb)
        self.call(name, nd.so._poller.poll, 0)

    def send(self, a, b, probe=None):
        from pysyncobj.node import TCPNode
        from pysyncobj.tcp_connection import CONNECTION_STATE
        nd = self.nodes[a]
        if not nd.alive or b not in nd.members:
            return None
        self.seq += 1
        m = {'from': a, 'n': self.seq}
        if probe is not None:
            m['probe'] = probe
        node = TCPNode(self.addr[b])
        had = set(nd.connected)
        r = self.call(a, nd.tr.send, node, m)
        if r:
            conn = nd.tr._connections.get(node)
            if conn is None or conn.state != CONNECTION_STATE.CONNECTED:
                self.V('send-true-on-dead-connection', '%s.send(%s) returned True but the connection object is %r' % (a, b, None if conn is None else conn.state))
        if b in had and b not in nd.connected:
            self.detected = True
        return r

    def send_ro(self, a, rid, probe=None):
        """voter a -> the read-only peer it knows under id rid"""
        from pysyncobj.tcp_connection import CONNECTION_STATE
        nd = self.nodes[a]
        node = nd.ro_connected.get(rid)
        if not nd.alive or node is None:
            return None
        self.seq += 1
        m = {'from': a, 'n': self.seq, 'for': nd.ro_ids.get(rid)}
        if probe is not None:
            m['probe'] = probe
        r = self.call(a, nd.tr.send, node, m)
        if r:
            conn = nd.tr._connections.get(node)
            if conn is None or conn.state != CONNECTION_STATE.CONNECTED:
                self.V('send-true-on-dead-connection', '%s.send(read-only %s) returned True but the connection object is %r' % (a, rid, None if conn is None else conn.state))
        if rid not in nd.ro_connected:
            self.detected = True
        return r

    def pings(self):
        for a in self.all_names:
            for b in sorted(self.nodes[a].members):
                self.send(a, b)
        for a in self.names:
            for rid in sorted(self.nodes[a].ro_connected):
                self.send_ro(a, rid)


OPS = ['tick', 'tick', 'tick', 'advance', 'advance', 'ping', 'refuse', 'bhnext', 'reset', 'blackhole', 'vanish', 'restart', 'partition', 'heal', 'drop', 'add', 'round', 'round', 'lateclose', 'lateclose', 'stalemacro']


def strategy(tier):
    step = st.tuples(st.integers(0, len(OPS) - 1), st.integers(0, 7), st.integers(0, 7)).map(list)
    return st.fixed_dictionaries({
        'n': st.integers(2, 4), 'ro': st.sampled_from([0, 0, 1, 2]), 'keepalive': st.booleans(), 'retry': st.sampled_from([0.0, 0.5, 5.0]),
        'rbuf': st.sampled_from([8192, 8192, 64, 5]),       # small receive buffers: a frame is read in many pieces, faults hit the middle of frames
        'steps': st.integers(1, 120 if tier == 'quick' else 200).flatmap(lambda n: st.lists(step, min_size=n, max_size=n)),
    })


def run_case(case):
    h = Harness(case)
    kern = h.kern
    names = h.names
    allp = h.all_names          # voters followed by read-only processes (equal to names in cases without read-only nodes)
    classes = set()
    trace = []
    down = {}
    try:
        for _ in range(3):
            for n in allp:
                h.tick(n)
        for s in case['steps']:
            if h.viol:
                break
            op = OPS[s[0] % len(OPS)]
            a, b = s[1], s[2]
            name = allp[a % len(allp)]
            if op == 'tick':
                h.tick(name)
            elif op == 'advance':
                kern.advance([0.01, 0.1, 0.5, 1.0, 3.6, 5.1, 20.0, 64.0][b % 8])
            elif op == 'ping':
                h.pings()
            elif op == 'round':
                kern.advance(0.1)
                for n in allp:
                    h.tick(n)
                h.pings()
            elif op == 'refuse':
                kern.connect_plan.append('refuse')
            elif op == 'bhnext':
                kern.connect_plan.append('blackhole')
            elif op == 'reset':
                conns = kern.connections()
                if conns:
                    kern.reset(conns[a % len(conns)])
                    classes.add('reset')
            elif op == 'blackhole':
                conns = kern.connections()
                if conns:
                    kern.blackhole(conns[a % len(conns)])
                    classes.add('blackhole')
            elif op == 'stalemacro':
                # a connection goes silent; the dialer times out and reconnects while the acceptor still holds the old one
                # (stale connection replaced by a new incoming one); later the old one finally gets its FIN/RST
                conns = kern.connections()
                if conns:
                    cn = conns[a % len(conns)]
                    dialer, acceptor = cn.proc, cn.peer.proc
                    old_server_side = cn.peer
                    kern.blackhole(cn)
                    kern.advance(3.6)
                    h.tick(dialer)
                    h.send(dialer, acceptor)
                    for _ in range(2 + b % 3):
                        kern.advance(0.1)
                        h.tick(dialer)
                        h.tick(acceptor)
                    if old_server_side.state == 'connected':
                        if b % 2:
                            old_server_side.err = 104
                        else:
                            old_server_side.eof = True
                        classes.add('late-fin-or-rst-on-replaced-connection')
                    for _ in range(2):
                        kern.advance(0.1)
                        h.tick(acceptor)
                        h.tick(dialer)
            elif op == 'lateclose':
                # an orphaned socket (its peer closed or vanished while the path was black-holed) finally gets the FIN/RST
                orphans = [x for x in kern.socks.values() if x.state == 'connected' and (x.blackholed or x.half_open) and (x.peer is None or x.peer.state == 'closed')]
                if orphans:
                    x = orphans[a % len(orphans)]
                    if b % 2:
                        x.err = 104
                    else:
                        x.eof = True
                    classes.add('late-fin-or-rst-on-orphan')
            elif op == 'vanish':
                nd = h.nodes[name]
                if nd.alive:
                    kern.vanish(name)
                    nd.alive = False
                    kern.down.add(name)
                    classes.add('host-vanished')
            elif op == 'restart':
                nd = h.nodes[name]
                if nd.alive:
                    h.call(name, nd.tr.destroy)       # clean stop: sockets closed with FIN
                    classes.add('clean-restart')
                kern.down.discard(name)
                nd.start()
            elif op == 'partition':
                x, y = allp[a % len(allp)], names[b % len(names)]
                if x != y:
                    kern.partitioned.add(frozenset((x, y)))
                    for c in kern.connections():
                        if set((c.proc, c.peer.proc)) == set((x, y)):
                            kern.blackhole(c)
                    classes.add('partition')
            elif op == 'heal':
                kern.partitioned = set()
            elif op == 'drop':
                from pysyncobj.node import TCPNode
                x, y = allp[a % len(allp)], names[b % len(names)]
                if x != y and y in h.nodes[x].members and h.nodes[x].alive:
                    h.nodes[x].members.discard(y)
                    h.nodes[x].connected.discard(y)
                    h.call(x, h.nodes[x].tr.dropNode, TCPNode(h.addr[y]))
                    classes.add('dropNode')
            elif op == 'add':
                from pysyncobj.node import TCPNode
                x, y = allp[a % len(allp)], names[b % len(names)]
                if x != y and y not in h.nodes[x].members and h.nodes[x].alive:
                    h.nodes[x].members.add(y)
                    h.call(x, h.nodes[x].tr.addNode, TCPNode(h.addr[y]))
                    classes.add('addNode')
            if len(trace) < 40:
                trace.append([op, a, b])
        # ---- faults stop: everything comes back and must reconnect within the bound
        if not h.viol:
            kern.partitioned = set()
            kern.connect_plan = []
            from pysyncobj.node import TCPNode
            for n in allp:
                nd = h.nodes[n]
                kern.down.discard(n)
                if not nd.alive:
                    nd.start()
                for m in names:
                    if m != n and m not in nd.members:
                        nd.members.add(m)
                        h.call(n, nd.tr.addNode, TCPNode(h.addr[m]))
            bound = K.SYN_TIMEOUT + max(h.retry, 3.5, 31.0 if h.keepalive else 0.0) + 10.0
            t_end = kern.clock.now() + bound
            ok = False
            while kern.clock.now() < t_end and not h.viol:
                kern.advance(0.1)
                for n in allp:
                    h.tick(n)
                h.pings()
                if all(h.nodes[n].connected == set(m for m in names if m != n) for n in allp) and check_pairs(h) is None and check_ro(h) is None:
                    ok = True
                    break
            if not h.viol:
                if not ok:
                    h.V('not-reconnected-within-bound', 'after %.0f virtual seconds without faults: told-connected %r; kernel/maps: %s' % (
                        bound, dict((n, sorted(h.nodes[n].connected)) for n in allp), check_pairs(h) or check_ro(h)))
                else:
                    # probes each way: delivered exactly once, attributed to the sender
                    for a in allp:
                        for b in names:
                            if a != b:
                                r = h.send(a, b, probe=1)
                                if r is not True:
                                    h.V('send-false-on-established-connection', '%s.send(%s) returned %r although both sides report connected' % (a, b, r))
                    # every voter -> every read-only peer it knows (the id is bound to a process by the messages that arrived under it)
                    for a in names:
                        for rid in sorted(h.nodes[a].ro_connected):
                            r = h.send_ro(a, rid, probe=1)
                            if r is not True:
                                h.V('send-false-on-established-connection', '%s.send(read-only id %s) returned %r although it is announced as connected' % (a, rid, r))
                    for _ in range(3):
                        kern.advance(0.1)
                        for n in allp:
                            h.tick(n)
                    for a in allp:
                        for b in names:
                            if a != b and h.probes_got[(a, b, 1)] != 1 and not h.viol:
                                h.V('probe-not-delivered-once', 'probe %s->%s delivered %d times' % (a, b, h.probes_got[(a, b, 1)]))
                    for a in names:
                        for b in h.ro_names:
                            if h.probes_got[(a, b, 1)] != 1 and not h.viol:
                                h.V('probe-not-delivered-once', 'probe %s->%s (read-only) delivered %d times' % (a, b, h.probes_got[(a, b, 1)]))
        if h.stale_replaced:
            classes.add('stale-connection-replaced')
        if h.detected or kern.stats.get('keepalive_timeouts'):
            classes.add('dead-connection-detected')
        nontrivial = h.stale_replaced or h.detected or bool(kern.stats.get('keepalive_timeouts'))
        classes.add('keepalive' if h.keepalive else 'no-keepalive')
        if h.ro_names:
            classes.add('read-only-nodes')
            if h.counters['readonly-disconnected']:
                classes.add('read-only-node-reconnected')
        return Result(nontrivial=nontrivial, classes=sorted(classes), violation=h.viol[0] if h.viol else None,
                      sample={'n': case['n'], 'ro': case.get('ro', 0), 'keepalive': case['keepalive'], 'retry': case['retry'], 'steps': trace[:30]})
    finally:
        for n in allp:
            nd = h.nodes[n]
            if nd.alive:
                try:
                    kern.current = n
                    nd.tr.destroy()
                except Exception:
                    pass


def check_pairs(h):
    """None if every pair has exactly one established kernel connection that both transports' maps point to."""
    from pysyncobj.node import TCPNode
    from pysyncobj.tcp_connection import CONNECTION_STATE
    names = h.names
    conns = h.kern.connections()
    for i, a in enumerate(names):
        for b in names[i + 1:]:
            est = [c for c in conns if set((c.proc, c.peer.proc)) == set((a, b)) and not c.blackholed and not c.half_open and not c.err and not c.peer.err]
            if len(est) != 1:
                return 'pair %s-%s has %d established kernel connections' % (a, b, len(est))
            for x, y in ((a, b), (b, a)):
                conn = h.nodes[x].tr._connections.get(TCPNode(h.addr[y]))
                if conn is None or conn.state != CONNECTION_STATE.CONNECTED:
                    return '%s has no CONNECTED connection object for %s' % (x, y)
                sock = est[0] if est[0].proc == x else est[0].peer
                if conn.fileno() != sock.fd:
                    return '%s\'s connection object for %s uses fd %r, the established kernel connection is fd %d' % (x, y, conn.fileno(), sock.fd)
    return None


def check_ro(h):
    """None if every read-only process has exactly one established connection to every voter, which the voter announced under
    exactly one id (bound to that process by the messages that arrived under it), and no other read-only id is still announced."""
    from pysyncobj.node import TCPNode
    from pysyncobj.tcp_connection import CONNECTION_STATE
    conns = h.kern.connections()
    for v in h.names:
        nd = h.nodes[v]
        bound = sorted(nd.ro_ids.get(i) or '?' for i in nd.ro_connected)
        if bound != sorted(h.ro_names):
            return '%s has read-only ids %r announced (bound to %r), the read-only processes are %r' % (v, sorted(nd.ro_connected), bound, h.ro_names)
        for rid, node in nd.ro_connected.items():
            r = nd.ro_ids[rid]
            est = [c for c in conns if c.proc == r and c.peer.proc == v and not c.blackholed and not c.half_open and not c.err and not c.peer.err]
            if len(est) != 1:
                return 'read-only %s has %d established kernel connections to %s' % (r, len(est), v)
            conn = nd.tr._connections.get(node)
            if conn is None or conn.state != CONNECTION_STATE.CONNECTED or conn.fileno() != est[0].peer.fd:
                return '%s\'s connection object for read-only id %s is not the established kernel connection' % (v, rid)
            rc = h.nodes[r].tr._connections.get(TCPNode(h.addr[v]))
            if rc is None or rc.state != CONNECTION_STATE.CONNECTED or rc.fileno() != est[0].fd:
                return 'read-only %s\'s connection object for %s is not the established kernel connection' % (r, v)
    return None


def shard(seed, n, tier):
    stats = runner.Stats()
    runner.explore(PROP, strategy(tier), run_case, n, seed, stats, shrink=True)
    return stats


def main(tier, seed, cases=None):
    t0 = time.time()
    shards, n = (12, 200) if tier == 'quick' else (16, 3000)
    if cases:
        n = cases
    kws = [dict(seed=seed * 1000 + i, n=n, tier=tier) for i in range(shards)]
    stats = runner.run_shards(__name__, 'shard', kws)
    return runner.finish(PROP, LEVEL, tier, seed, stats, RULE, ASSUMPTIONS, t0)


def replay(path):
    return runner.replay_file(PROP, path, run_case)
