"""C15 - batteries behave like the Python containers they mimic, on every replica."""
import collections
import heapq
import time

from hypothesis import strategies as st

from ..sim import cluster, gen, simprop, core
from .. import runner, env, findings
from ..runner import Result
from pysyncobj.batteries import ReplCounter, ReplList, ReplDict, ReplSet, ReplQueue, ReplPriorityQueue

PROP = 'C15'
MANIFEST = {
    'engine': 'E4-model + E1-sim',
    'level': 'exploration',
    'technique': 'Hypothesis model-based op sequences: every public battery method vs int/list/dict/set/bounded deque/bounded heap, applied directly and through a simulated 3-node cluster with compaction and snapshot catch-up',
    'text': 'Op sequences over all public methods with the batteries\' own signatures (defaults included) and tiny argument domains are applied (i) directly (_doApply=True) and compared call by call with the builtin: '
            'return value, documented exception type, contents through the read accessors; (ii) through a 3-node simulated cluster (code version 1) with a forced compaction and a replica that catches up by snapshot: '
            'callback results equal the model and all replicas hold equal contents. set.pop is compared by validity, not identity.',
    'note': 'Reference semantics are the builtins\' (queue: maxsize<=0 is unbounded as in queue.Queue); argument domains tiny on purpose; cluster part submits through healthy nodes and waits for each callback.',
}
LEVEL = 'exploration'
RULE = ('case = (battery kind, maxsize in {0,1,2,3,8}, op list <=25 (<=40 for queues) with args from ints 0..5/short strings/small tuples, list elements also 0.0/1.0/2.0/True/False (equal to ints, not identical: list contents and results are compared by type and value), mode direct|cluster). '
        'non-trivial = the sequence hit >=1 miss/empty/bound situation (documented error, default returned, put refused) AND used >=1 default argument; distinct = distinct case digests')
ASSUMPTIONS = ['documented errors = ValueError/IndexError/KeyError as in the docstrings', 'queue "full" follows queue.Queue: never full when maxsize<=0']

V = st.integers(0, 5)
VS = st.one_of(st.integers(0, 5), st.sampled_from(['a', 'b']))
POS = st.integers(-4, 4)
# list elements: small ints plus values that compare equal to them but are other objects (1 == 1.0 == True): a list keeps
# whichever was put where, so contents are compared by type and value
VL = st.one_of(st.integers(0, 5), st.integers(0, 5), st.sampled_from([0.0, 1.0, 2.0, True, False]))


def typed(seq):
    return [(type(x).__name__, x) for x in seq]


def ops_for(kind):
    T = st.tuples
    J = st.just
    if kind == 'counter':
        return st.one_of(T(J('set'), V), T(J('add'), V), T(J('sub'), V), T(J('inc')), T(J('get')))
    if kind == 'list':
        return st.one_of(T(J('reset'), st.lists(VL, max_size=5)), T(J('set'), POS, VL), T(J('append'), VL), T(J('extend'), st.lists(VL, max_size=3)),
                         T(J('insert'), POS, VL), T(J('remove'), V), T(J('pop'), POS), T(J('pop')), T(J('sort')), T(J('sort'), st.booleans()), T(J('sort'), st.just(True)),
                         T(J('index'), V), T(J('count'), V), T(J('get'), POS), T(J('__getitem__'), POS), T(J('__setitem__'), POS, VL), T(J('__len__')))
    if kind == 'dict':
        return st.one_of(T(J('reset'), st.lists(st.tuples(VS, V).map(list), max_size=3)), T(J('__setitem__'), VS, V), T(J('set'), VS, V), T(J('setdefault'), VS, V),
                         T(J('update'), st.lists(st.tuples(VS, V).map(list), max_size=3)), T(J('pop'), VS), T(J('pop'), VS, V), T(J('clear')),
                         T(J('__getitem__'), VS), T(J('get'), VS), T(J('get'), VS, V), T(J('__len__')), T(J('__contains__'), VS),
                         T(J('keys')), T(J('values')), T(J('items')))
    if kind == 'set':
        W = st.integers(0, 20)
        return st.one_of(T(J('reset'), st.lists(V, max_size=4)), T(J('add'), W), T(J('add'), W), T(J('remove'), W), T(J('discard'), W), T(J('pop')), T(J('pop')), T(J('clear')),
                         T(J('update'), st.lists(W, max_size=6)), T(J('__len__')), T(J('__contains__'), W))
    if kind in ('queue', 'pqueue'):
        item = st.integers(0, 9)
        if kind == 'pqueue':
            # runs of puts followed by runs of gets (a heap must hand the items back in order)
            return st.one_of(T(J('put'), item), T(J('put'), item), T(J('put'), item), T(J('get')), T(J('get')), T(J('get'), V), T(J('qsize')), T(J('empty')), T(J('full')), T(J('__len__')),
                             T(J('putmany'), st.lists(item, min_size=3, max_size=12)), T(J('drain'), st.integers(1, 12)),
                             T(J('sortrun'), st.lists(item, min_size=4, max_size=12)), T(J('sortrun'), st.lists(item, min_size=4, max_size=12)))
        return st.one_of(T(J('put'), item), T(J('put'), item), T(J('put'), item), T(J('get')), T(J('get')), T(J('get'), V), T(J('qsize')), T(J('empty')), T(J('full')), T(J('__len__')))
    raise ValueError(kind)


KINDS = ['counter', 'list', 'dict', 'set', 'queue', 'pqueue']


def strategy(tier, mode=None):
    def mk(kind):
        return st.fixed_dictionaries({
            'kind': st.just(kind), 'maxsize': st.sampled_from([0, 0, 0, 1, 2, 3, 8]), 'rng': st.integers(0, 99),
            'mode': st.just(mode) if mode else st.sampled_from(['direct', 'direct', 'direct', 'cluster']),
            'ops': st.lists(ops_for(kind).map(list), min_size=1, max_size=40 if kind in ('queue', 'pqueue') else 25),
        })
    return st.sampled_from(KINDS).flatmap(mk)


# ------------------------------------------------------------------ reference models

class Miss(Exception):
    pass


def model_new(kind, maxsize):
    if kind == 'counter':
        return [0]
    if kind == 'list':
        return []
    if kind == 'dict':
        return {}
    if kind == 'set':
        return set()
    if kind == 'queue':
        return collections.deque()
    return []


def model_apply(kind, m, op, maxsize, flags):
    """returns (new model, result, exception type or None)"""
    name, args = op[0], list(op[1:])
    try:
        if kind == 'counter':
            if name == 'set':
                m[0] = args[0]
            elif name == 'add':
                m[0] += args[0]
            elif name == 'sub':
                m[0] -= args[0]
            elif name == 'inc':
                m[0] += 1
            return m, m[0], None
        if kind == 'list':
            if name == 'reset':
                return list(args[0]), None, None
            if name in ('set', '__setitem__'):
                m[args[0]] = args[1]
                return m, None, None
            if name == 'pop':
                if not args:
                    flags.add('default-arg')
                    return m, m.pop(), None
                return m, m.pop(args[0]), None
            if name == 'sort':
                if not args:
                    flags.add('default-arg')
                m.sort(reverse=args[0] if args else False)
                return m, None, None
            if name == 'get':
                return m, m[args[0]], None
            return m, getattr(m, name)(*args), None
        if kind == 'dict':
            if name == 'reset':
                return dict(map(tuple, args[0])), None, None
            if name == 'update':
                m.update(dict(map(tuple, args[0])))
                return m, None, None
            if name == 'set':
                m[args[0]] = args[1]
                return m, None, None
            if name == 'pop':
                if len(args) == 1:
                    flags.add('default-arg')
                    if args[0] not in m:
                        flags.add('miss')
                    return m, m.pop(args[0], None), None
                if args[0] not in m:
                    flags.add('miss')
                return m, m.pop(*args), None
            if name == 'get':
                if len(args) == 1:
                    flags.add('default-arg')
                if args[0] not in m:
                    flags.add('miss')
                return m, m.get(*args), None
            if name in ('keys', 'values', 'items'):
                return m, sorted(getattr(m, name)(), key=repr), None
            return m, getattr(m, name)(*args), None
        if kind == 'set':
            if name == 'reset':
                return set(args[0]), None, None
            if name == 'update':
                m.update(args[0])
                return m, None, None
            if name == 'pop':
                if not m:
                    raise KeyError('pop from an empty set')
                return m, ('<any-member>',), None
            return m, getattr(m, name)(*args), None
        if kind in ('queue', 'pqueue'):
            bounded = maxsize > 0
            if name == 'put':
                if bounded and len(m) >= maxsize:
                    flags.add('miss')
                    return m, False, None
                if kind == 'queue':
                    m.append(args[0])
                else:
                    heapq.heappush(m, args[0])
                return m, True, None
            if name == 'get':
                if not args:
                    flags.add('default-arg')
                if not m:
                    flags.add('miss')
                    return m, (args[0] if args else None), None
                return m, (m.popleft() if kind == 'queue' else heapq.heappop(m)), None
            if name in ('qsize', '__len__'):
                return m, len(m), None
            if name == 'empty':
                return m, len(m) == 0, None
            if name == 'full':
                return m, bounded and len(m) >= maxsize, None
    except (ValueError, IndexError, KeyError) as e:
        flags.add('miss')
        return m, None, type(e)
    raise runner.HarnessError('no model for %s.%s' % (kind, name))


def make_battery(kind, maxsize):
    if kind == 'counter':
        return ReplCounter()
    if kind == 'list':
        return ReplList()
    if kind == 'dict':
        return ReplDict()
    if kind == 'set':
        return ReplSet()
    if kind == 'queue':
        return ReplQueue(maxsize)
    return ReplPriorityQueue(maxsize)


MUTATING = {
    'counter': {'set', 'add', 'sub', 'inc'},
    'list': {'reset', 'set', 'append', 'extend', 'insert', 'remove', 'pop', 'sort', '__setitem__'},
    'dict': {'reset', '__setitem__', 'set', 'setdefault', 'update', 'pop', 'clear'},
    'set': {'reset', 'add', 'remove', 'discard', 'pop', 'clear', 'update'},
    'queue': {'put', 'get'},
    'pqueue': {'put', 'get'},
}


def real_args(kind, op):
    name, args = op[0], list(op[1:])
    if kind == 'set' and name in ('reset', 'update'):
        return name, [set(args[0])]
    if kind == 'dict' and name in ('reset', 'update'):
        return name, [dict(map(tuple, args[0]))]
    if kind == 'list' and name in ('reset', 'extend'):
        return name, [list(args[0])]
    return name, args


def contents(kind, b):
    if kind == 'counter':
        return b.get()
    if kind == 'list':
        return (typed(b.rawData()), len(b))
    if kind == 'dict':
        return (sorted(b.items(), key=repr), len(b))
    if kind == 'set':
        return (sorted(b.rawData()), len(b))
    # the wrapped container, whatever the private attribute is called
    import collections as _c
    priv = [v for k, v in sorted(b.__dict__.items()) if isinstance(v, (list, _c.deque))][0]
    if kind == 'queue':
        return (list(priv), b.qsize())
    return (sorted(priv), b.qsize())


def model_contents(kind, m):
    if kind == 'counter':
        return m[0]
    if kind == 'list':
        return (typed(m), len(m))
    if kind == 'dict':
        return (sorted(m.items(), key=repr), len(m))
    if kind == 'set':
        return (sorted(m), len(m))
    if kind == 'queue':
        return (list(m), len(m))
    return (sorted(m), len(m))


def norm_result(kind, name, r):
    if kind == 'dict' and name in ('keys', 'values', 'items'):
        return sorted(r, key=repr)
    return r


def compare_call(kind, name, args, mres, mexc, res, exc, model_before):
    """None if the real outcome matches the model's, else (signature, text)."""
    call = '%s.%s(%s)' % (kind, name, ', '.join(map(repr, args)))
    if mexc is not None:
        if exc is None:
            return ('no-documented-error:%s.%s' % (kind, name), '%s returned %r, the builtin raises %s' % (call, res, mexc.__name__))
        if not isinstance(exc, mexc):
            return ('wrong-error-type:%s.%s' % (kind, name), '%s raised %r, the builtin raises %s' % (call, exc, mexc.__name__))
        return None
    if exc is not None:
        return ('unexpected-error:%s.%s:%s' % (kind, name, type(exc).__name__), '%s raised %r, the builtin returns %r' % (call, exc, mres))
    if mres == ('<any-member>',):
        if res not in model_before:
            return ('set-pop-not-a-member', '%s returned %r which is not in %r' % (call, res, model_before))
        return None
    if res != mres or (kind == 'list' and type(res) is not type(mres)):
        return ('wrong-result:%s.%s' % (kind, name), '%s returned %r, the builtin gives %r' % (call, res, mres))
    return None


def expand(ops):
    out = []
    for op in ops:
        if op[0] == 'putmany':
            out.extend(['put', v] for v in op[1])
        elif op[0] == 'drain':
            out.extend(['get'] for _ in range(op[1]))
        elif op[0] == 'sortrun':
            out.extend(['put', v] for v in op[1])
            out.extend(['get'] for _ in op[1])
        else:
            out.append(op)
    return out


def run_direct(case):
    kind, maxsize = case['kind'], case['maxsize']
    case = dict(case, ops=expand(case['ops']))
    b = make_battery(kind, maxsize)
    m = model_new(kind, maxsize)
    flags = set()
    trace = []
    for op in case['ops']:
        name, args = real_args(kind, op)
        before = set(m) if kind == 'set' else None
        m, mres, mexc = model_apply(kind, m, list(op), maxsize, flags)
        res, exc = None, None
        try:
            if name in MUTATING[kind]:
                res = getattr(b, name)(*args, _doApply=True)
            else:
                res = norm_result(kind, name, getattr(b, name)(*args))
        except Exception as e:
            exc = e
        trace.append([name] + [repr(a) for a in args])
        v = compare_call(kind, name, args, mres, mexc, res, exc, before)
        if v:
            return v, flags, trace
        if kind == 'set' and name == 'pop' and mexc is None:
            m.discard(res)
        if contents(kind, b) != model_contents(kind, m):
            return (('contents-differ:%s' % kind, 'after %s.%s%r the battery holds %r, the builtin %r' % (kind, name, tuple(args), contents(kind, b), model_contents(kind, m))), flags, trace)
    return None, flags, trace


# ------------------------------------------------------------------ cluster mode

class BProbe(core.Probe):
    kind = 'list'
    maxsize = 0

    def __init__(self, selfAddr, others, conf, sim, name, consumers=None):
        self.bat = make_battery(sim.bat_kind, sim.bat_maxsize)
        super(BProbe, self).__init__(selfAddr, others, conf, sim, name, consumers=[self.bat])


class BSim(cluster.Sim):
    probe_class = BProbe

    def __init__(self, cfg, kind, maxsize):
        self.bat_kind = kind
        self.bat_maxsize = maxsize
        super(BSim, self).__init__(cfg)

    def extend_model(self, upto):
        self.model_pos = max(self.model_pos, upto)
        return False


def settle(sim, cond, rounds=80):
    for _ in range(rounds):
        sim.calm_round()
        if cond():
            return True
    return cond()


def run_cluster(case):
    kind, maxsize = case['kind'], case['maxsize']
    case = dict(case, ops=expand(case['ops'])[:40])
    cfg = {'n': 3, 'rng': case['rng'], 'compact_chunk': [7, 50, 65536][case['rng'] % 3], 'compact_min_entries': 100000, 'target': [PROP]}
    sim = BSim(cfg, kind, maxsize)
    m = model_new(kind, maxsize)
    flags = set()
    trace = []
    try:
        simprop.boot(sim, need_leader=True)
        leader = [n for n in sim.live() if sim.nodes[n]._isLeader()]
        if not leader:
            raise runner.HarnessError('no leader after boot')
        leader = leader[0]
        lag = [n for n in sim.voters if n != leader][case['rng'] % 2]
        # enable code version 1 (ReplList.__setitem__ is declared ver=1)
        done = []
        if kind == 'list':
            sim.call(leader, lambda: sim.nodes[leader].setCodeVersion(1, callback=lambda r, e: done.append(e)))
        if kind == 'list' and (not settle(sim, lambda: bool(done)) or done != [0]):
            raise runner.HarnessError('setCodeVersion(1) did not succeed on a healthy cluster: %r %r' % (done, sim.escaped[:2]))
        # a ver=1 method exists on a node only once that node has applied the version entry: wait for all of them
        if kind == 'list' and not settle(sim, lambda: all(sim.nodes[n].getCodeVersion() == 1 for n in sim.live())):
            raise runner.HarnessError('code version 1 did not reach every replica of a healthy cluster')
        ops = case['ops']
        cut = len(ops) // 3
        caught_up = lambda: (len(set((sim.nodes[n].raftLastApplied) for n in sim.live())) == 1 and
                             sum(1 for n in sim.live() if sim.nodes[n]._isLeader()) == 1 and
                             all(sim.nodes[n].raftLastApplied >= max(sim.nodes[k].raftCommitIndex for k in sim.live()) for n in sim.live()))
        for i, op in enumerate(ops):
            if i == cut:
                # isolate one follower: it will need a snapshot later
                mask = 1 << sim.voters.index(lag)
                sim.op_partition(mask, 0, 0)
                flags.add('lagging-replica')
            if i == 2 * cut + 1 and len(ops) >= 3:
                for n in sim.live():
                    if n != lag:
                        sim.nodes[n].forceLogCompaction()
                flags.add('compaction')
                for _ in range(3):
                    sim.calm_round()
                # heal: the lagging replica catches up (by snapshot: the others compacted) and takes part again
                sim.blocked = set()
                if not settle(sim, caught_up, rounds=300):
                    return (('replica-did-not-catch-up', 'applied indices %r after healing; escaped %r' % (dict((n, sim.nodes[n].raftLastApplied) for n in sim.live()), sim.escaped[:2])), flags, trace)
                leader = [n for n in sim.live() if sim.nodes[n]._isLeader()][0]
                if sim.snapshot_msgs:
                    flags.add('snapshot-catch-up')
            name, args = real_args(kind, op)
            submitter = leader if i % 2 == 0 else [n for n in sim.voters if n not in (leader, lag)][0]
            if sim.nodes[submitter]._getLeader() is None:
                settle(sim, lambda: sim.nodes[submitter]._getLeader() is not None)
            obj = sim.nodes[submitter]
            before = set(m) if kind == 'set' else None
            m, mres, mexc = model_apply(kind, m, list(op), maxsize, flags)
            trace.append([name] + [repr(a) for a in args] + [submitter])
            if name not in MUTATING[kind]:
                # read accessor: compare on the submitting node's replica (once it has applied everything committed)
                settle(sim, lambda: sim.nodes[submitter].raftLastApplied >= max(sim.nodes[n].raftCommitIndex for n in sim.live()))
                res, exc = None, None
                try:
                    res = norm_result(kind, name, getattr(obj.bat, name)(*args))
                except Exception as e:
                    exc = e
                v = compare_call(kind, name, args, mres, mexc, res, exc, before)
                if v:
                    return v, flags, trace
                continue
            cbs = []
            exc = None
            try:
                CLOCK_active(sim, submitter)
                getattr(obj.bat, name)(*args, callback=lambda r, e: cbs.append((r, e)))
            except Exception as e:
                exc = e
            if exc is not None:
                return (('submit-raised:%s.%s:%s' % (kind, name, type(exc).__name__), '%s.%s%r raised %r when submitted' % (kind, name, tuple(args), exc)), flags, trace)
            if not settle(sim, lambda: bool(cbs)):
                return (('no-callback:%s.%s' % (kind, name), '%s.%s%r submitted on %s got no callback in a healthy majority; escaped %r' % (kind, name, tuple(args), submitter, sim.escaped[:2])), flags, trace)
            res, err = cbs[0]
            if err != 0:
                return (('callback-error:%s.%s' % (kind, name), '%s.%s%r got error code %r' % (kind, name, tuple(args), err)), flags, trace)
            if mexc is None:
                v = compare_call(kind, name, args, mres, None, res, None, before)
                if v:
                    return v, flags, trace
                if kind == 'set' and name == 'pop':
                    m.discard(res)
            # a documented error is swallowed by the apply loop: only contents are compared
            c = contents(kind, sim.nodes[submitter].bat)
            if c != model_contents(kind, m):
                return (('contents-differ:%s' % kind, 'after %s.%s%r replica %s holds %r, the builtin %r' % (kind, name, tuple(args), submitter, c, model_contents(kind, m))), flags, trace)
        # heal: the lagging replica catches up (by snapshot if the log was compacted)
        sim.blocked = set()
        if not settle(sim, caught_up, rounds=300):
            return (('replica-did-not-catch-up', 'applied indices %r after healing; escaped %r' % (dict((n, sim.nodes[n].raftLastApplied) for n in sim.live()), sim.escaped[:2])), flags, trace)
        if sim.snapshot_msgs:
            flags.add('snapshot-catch-up')
        cs = dict((n, contents(kind, sim.nodes[n].bat)) for n in sim.live())
        if len(set(map(repr, cs.values()))) != 1:
            sig = 'replicas-differ:%s' % kind
            if kind == 'set' and 'snapshot-catch-up' in flags and any(t[0] == 'pop' for t in trace[2 * cut + 1:]):
                sig = 'replicas-differ:set:pop-after-snapshot-rebuild'
            return ((sig, 'replica contents differ after catch-up: %r; ops %r' % (cs, trace)), flags, trace)
        if list(cs.values())[0] != model_contents(kind, m):
            return (('contents-differ:%s' % kind, 'replicas hold %r, the builtin %r' % (list(cs.values())[0], model_contents(kind, m))), flags, trace)
        if sim.escaped:
            e = sim.escaped[0]
            return (('exception-escaped:%s' % e[2], '%r' % (e,)), flags, trace)
        return None, flags, trace
    finally:
        sim.destroy()


def CLOCK_active(sim, name):
    core.CLOCK.active = name


def run_case(case):
    if case['mode'] == 'direct':
        v, flags, trace = run_direct(case)
    else:
        v, flags, trace = run_cluster(case)
    classes = set(flags) | {case['kind'], case['mode']}
    nontrivial = 'miss' in flags and 'default-arg' in flags
    return Result(nontrivial=nontrivial, classes=sorted(classes), violation=v,
                  sample={'kind': case['kind'], 'maxsize': case['maxsize'], 'mode': case['mode'], 'ops': trace[:25]})


def shard(seed, n, tier, mode=None):
    stats = runner.Stats()
    runner.explore(PROP, strategy(tier, mode), run_case, n, seed, stats, shrink=True)
    return stats


def main(tier, seed, cases=None):
    t0 = time.time()
    if tier == 'quick':
        kws = [dict(seed=seed * 1000 + i, n=cases or 2500, tier=tier, mode='direct') for i in range(4)]
        kws += [dict(seed=seed * 1000 + 50 + i, n=cases or 200, tier=tier, mode='cluster') for i in range(8)]
    else:
        kws = [dict(seed=seed * 1000 + i, n=cases or 20000, tier=tier, mode='direct') for i in range(8)]
        kws += [dict(seed=seed * 1000 + 50 + i, n=cases or 2500, tier=tier, mode='cluster') for i in range(8)]
    stats = runner.run_shards(__name__, 'shard', kws)
    return runner.finish(PROP, LEVEL, tier, seed, stats, RULE, ASSUMPTIONS, t0)


def replay(path):
    return runner.replay_file(PROP, path, run_case)
