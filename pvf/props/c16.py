"""C16 - replicated locks are mutually exclusive and always eventually obtainable."""
import types

from hypothesis import strategies as st

from ..sim import cluster, gen, simprop, core
from .. import runner, findings
from ..runner import Result
import pysyncobj.pickle as ppickle

PROP = 'C16'
MANIFEST = {
    'engine': 'E1-sim',
    'level': 'exploration',
    'technique': 'Hypothesis-generated interleavings of tryAcquire/release/prolongation-loop iterations/clock advances from 2-4 ReplLockManager clients on a simulated cluster (commit delays, breaks, partitions) under one common virtual wall clock; '
                 'mutual-exclusion invariant at every step, reference lock table fold, late-acquire rule, obtainability after expiry',
    'text': 'pysyncobj.batteries.threading/time are replaced so that the real _autoAcquireThread loop body runs one iteration per harness step and time.time() is a common virtual clock. After every step: for every lock at most one client considers it its own (isAcquired() true, its latest '
            'tryAcquire answered True and no release() since); every replica\'s lock table equals an independent fold of the committed acquire/prolongate/release commands at its applied index; a tryAcquire whose callback arrives later than autoUnlockTime/2 '
            'after the attempt reports False. Closing phase: in-flight commands drain; a late-failed client does not hold the lock; a lock whose holder stopped prolonging is obtained by another client that tries after the auto-unlock time.',
    'note': 'Client clocks agree by construction (one virtual wall clock, decoupled from the nodes\' monotonic clocks so that commit delays are arbitrary); sync (blocking) variants of tryAcquire are exercised only through the same replicated commands.',
}
LEVEL = 'exploration'
RULE = ('case = (2-4 clients on 2-4 nodes, autoUnlockTime in {2,10}, step list <=160 of cluster steps + tryacquire/release/prolong/advance-clock/stop-prolonging). '
        'non-trivial = two clients contended for the same lock and (the wall clock passed an expiry while it was held, or a partition/break happened); distinct = distinct case digests')
ASSUMPTIONS = ['client clocks agree (common virtual clock)', 'lock ids from a 2-element domain so that clients contend']


class Wall(object):
    t = 5000.0


class Pause(BaseException):
    pass


class FakeTime(object):
    def __init__(self):
        self.sleeps = 0
        self.limit = None

    def time(self):
        return Wall.t

    def sleep(self, s):
        self.sleeps += 1
        if self.limit is not None and self.sleeps > self.limit:
            raise Pause()


FAKE_TIME = FakeTime()


class FakeEvent(object):
    def __init__(self):
        self._s = False

    def set(self):
        self._s = True

    def is_set(self):
        return self._s

    def wait(self, timeout=None):
        return self._s


class FakeThreadObj(object):
    def __init__(self, target=None, args=()):
        self.target = target
        self.args = args
        LAST_THREAD[0] = self

    def start(self):
        # the real thread sets `initialised` first thing; the constructor spins on it
        self.run_once()

    def run_once(self):
        FAKE_TIME.sleeps = 0
        FAKE_TIME.limit = 1
        try:
            self.target(*self.args)
        except Pause:
            pass
        finally:
            FAKE_TIME.limit = None

    def is_alive(self):
        return True

    def join(self, timeout=None):
        pass


LAST_THREAD = [None]


class FakeThreading(object):
    Thread = FakeThreadObj
    Event = FakeEvent

    @staticmethod
    def current_thread():
        return FakeThreadObj()

    Lock = __import__('threading').Lock


_inst = [False]


def install():
    if _inst[0]:
        return
    import pysyncobj.batteries as B
    B.threading = FakeThreading
    B.time = FAKE_TIME
    _inst[0] = True


class LProbe(core.BareProbe):
    def __init__(self, selfAddr, others, conf, sim, name, consumers=None):
        from pysyncobj.batteries import ReplLockManager
        install()
        self.mgr = ReplLockManager(sim.aut, selfID=name)
        self.mgr_thread = LAST_THREAD[0]
        super(LProbe, self).__init__(selfAddr, others, conf, sim, name, consumers=[self.mgr])

    def table(self):
        impl = self.mgr._consumer()
        return dict(impl._ReplLockManagerImpl__locks)

    def state_key(self):
        return tuple(sorted(self.table().items()))


class LSim(cluster.Sim):
    probe_class = LProbe

    def __init__(self, cfg, aut):
        self.aut = aut
        self.table = {}
        self.lidname = None
        self.expired_while_held = False
        self.lock_cmds = []
        super(LSim, self).__init__(cfg)
        self.model_keys = {1: ()}

    def decode(self, cmd):
        return None

    def extend_model(self, upto):
        if self.lidname is None:
            obj = list(self.nodes.values())[0]
            self.lidname = dict((v, k[1].rsplit('_v', 1)[0]) for k, v in obj._methodToID.items() if isinstance(k, tuple))
        aut = self.aut
        t = self.table
        while self.model_pos < upto:
            p = self.model_pos + 1
            g = self.G.get(p)
            if g is None:
                return False
            cmd = bytes(g[0])
            if cmd[:1] == b'\x00':
                c = ppickle.loads(cmd[1:])
                fid, args = (c[0], tuple(c[1])) if isinstance(c, tuple) else (c, ())
                name = self.lidname.get(fid)
                if name == 'acquire':
                    lock, client, now = args[:3]
                    ex = t.get(lock)
                    if ex is not None and now - ex[1] > aut:
                        ex = None
                        self.expired_while_held = True
                    if ex is None or ex[0] == client:
                        t[lock] = (client, now)
                        self.lock_cmds.append(('acquired', lock, client, now, p))
                elif name == 'prolongate':
                    client, now = args[:2]
                    for lock in list(t):
                        c0, t0 = t[lock]
                        if now - t0 > aut:
                            del t[lock]
                            self.expired_while_held = True
                        elif c0 == client:
                            t[lock] = (client, now)
                elif name == 'release':
                    lock, client = args[:2]       # the reference is written from the docstrings: whatever else a command carries, a release by the holder frees the lock
                    self.lock_cmds.append(('release', lock, client, None, p))
                    ex = t.get(lock)
                    if ex is not None and ex[0] == client:
                        del t[lock]
            self.model_pos = p
            self.model_keys[p] = tuple(sorted(t.items()))
        return True


LOCKS = ['L0', 'L1']
EXTRA = [('tryacquire', 12), ('release', 6), ('prolong', 10), ('advance', 8), ('stopprolong', 1)]


def strategy(tier):
    base = gen.case_strategy(110 if tier == 'quick' else 160, n_min=2, n_max=4, profiles=['mixed', 'pipelining', 'isolation'],
                             fixed={'compact_min_entries': 1000, 'queue_size': 100000})
    return st.tuples(base, st.sampled_from([2.0, 10.0])).map(lambda t: dict(t[0], aut=t[1]))


def run_case(case):
    install()
    Wall.t = 5000.0
    cfg = dict(case['cfg'])
    cfg['target'] = [PROP, 'C01']
    aut = case['aut']
    sim = LSim(cfg, aut)
    attempts = []           # dicts: client, lock, t_attempt, cbs[(res, err, t_cb)]
    stopped = set()
    contention = {}
    gave_up = set()         # (client, lock): the client called release() after its last tryAcquire: it no longer considers the lock its own
    viol = []
    seq = [0]
    last_release = {}
    owns = set()

    def V(sig, detail):
        if not viol:
            viol.append((sig, 'step %d: %s' % (sim.step_no, detail)))

    def clients():
        return [n for n in sim.voters if n in sim.nodes]

    def op_tryacquire(a, b, c):
        cl = clients()
        name = cl[a % len(cl)]
        lock = LOCKS[b % len(LOCKS)]
        seq[0] += 1
        rec = {'client': name, 'lock': lock, 't': Wall.t, 'cbs': [], 'seq': seq[0]}
        attempts.append(rec)
        contention.setdefault(lock, set()).add(name)
        core.CLOCK.active = name
        def cb(r, e, rec=rec):
            rec['cbs'].append((r, e, Wall.t))
            # a client that released considers the lock its own again only when a tryAcquire issued after that
            # release is answered True (until then isAcquired() may still read the pre-release state of its replica)
            if r and last_release.get((rec['client'], rec['lock']), 0) < rec['seq']:
                gave_up.discard((rec['client'], rec['lock']))
                owns.add((rec['client'], rec['lock']))
            if not r:
                owns.discard((rec['client'], rec['lock']))     # told "not acquired" (the library also sends a release)
            if not r and not any(r2 is not rec and r2['client'] == rec['client'] and r2['lock'] == rec['lock'] and r2['seq'] > rec['seq'] for r2 in attempts):
                gave_up.add((rec['client'], rec['lock']))      # told "not acquired" (e.g. too late): it does not consider the lock its own
        sim.call(name, lambda: sim.nodes[name].mgr.tryAcquire(lock, callback=cb))
        return (name, lock)

    def op_release(a, b, c):
        cl = clients()
        name = cl[a % len(cl)]
        lock = LOCKS[b % len(LOCKS)]
        gave_up.add((name, lock))
        owns.discard((name, lock))
        seq[0] += 1
        last_release[(name, lock)] = seq[0]
        sim.call(name, lambda: sim.nodes[name].mgr.release(lock))
        return (name, lock)

    def op_prolong(a, b, c):
        cl = [n for n in clients() if n not in stopped]
        if not cl:
            return False
        name = cl[a % len(cl)]
        core.CLOCK.active = name
        sim.call(name, sim.nodes[name].mgr_thread.run_once)
        return (name,)

    def op_advance(a, b, c):
        dt = [0.1, 0.3, aut / 4.0 + 0.01, aut / 2.0 + 0.01, aut + 0.01, 0.05][b % 6]
        Wall.t += dt
        return (dt,)

    def op_stopprolong(a, b, c):
        cl = clients()
        name = cl[a % len(cl)]
        stopped.add(name)
        return (name,)

    sim.op_tryacquire, sim.op_release, sim.op_prolong, sim.op_advance, sim.op_stopprolong = op_tryacquire, op_release, op_prolong, op_advance, op_stopprolong

    def invariant():
        for lock in LOCKS:
            # a client considers a lock its own when a tryAcquire of it was answered True and it has neither released
            # since nor been told False by a later answer; isAcquired() adds what its replica knows about expiry
            holders = [n for n in clients() if (n, lock) in owns and (n, lock) not in gave_up and sim.nodes[n].mgr.isAcquired(lock)]
            if len(holders) > 1:
                # known finding: the release() that the library sends for an attempt answered too late is not tied to
                # that attempt - it also undoes a later acquisition of the same client that was answered True
                undone = [h for h in holders
                          if any(r['client'] == h and r['lock'] == lock and any((not x[0]) and x[2] - r['t'] > aut / 2.0 for x in r['cbs']) and
                                 any(r2['client'] == h and r2['lock'] == lock and r2.get('seq', 0) > r.get('seq', 0) and any(x[0] for x in r2['cbs']) for r2 in attempts)
                                 for r in attempts)]
                if undone:
                    V('two-clients-hold-lock:release-of-late-attempt-undid-later-acquisition', 'lock %s is considered held by %r at wall time %.2f; %r was told False for a late attempt and True for a later one, '
                      'the release sent for the late attempt was committed after the later acquisition; tables %r' % (
                          lock, holders, Wall.t, undone, dict((n, sim.nodes[n].table().get(lock)) for n in holders)))
                    continue
                V('two-clients-hold-lock', 'lock %s is considered held by %r at wall time %.2f; tables %r' % (
                    lock, holders, Wall.t, dict((n, sim.nodes[n].table().get(lock)) for n in holders)))
        for rec in attempts:
            for (r, e, tcb) in rec['cbs'][rec.get('seen', 0):]:
                if tcb - rec['t'] > aut / 2.0 and r:
                    V('late-acquire-reported-success', '%s tryAcquire(%s) attempted at %.2f answered at %.2f (> autoUnlockTime/2 = %.2f later) reported True' % (
                        rec['client'], rec['lock'], rec['t'], tcb, aut / 2.0))
            rec['seen'] = len(rec['cbs'])
            if len(rec['cbs']) > 1:
                V('tryAcquire-callback-twice', '%r' % (rec,))
    sim.after_step_hooks.append(invariant)
    try:
        resolved = simprop.run_steps(sim, case, EXTRA)
        # ---- closing phase
        if not viol and not sim.viol:
            sim.blocked = set()
            quiet = 0
            sim.quiet_config()
            for _ in range(600):
                sim.calm_round()
                sim.check(light=True)
                live = sim.live()
                if sim.viol or viol:
                    break
                if (sum(1 for n in live if sim.nodes[n]._isLeader()) == 1 and len(set(sim.nodes[n].raftLastApplied for n in live)) == 1 and
                        all(rec['cbs'] for rec in attempts if rec['client'] in sim.nodes) and not sim._deliverables()):
                    quiet += 1
                    if quiet >= 25:      # releases issued from callbacks are still in command queues for a tick or two
                        break
                else:
                    quiet = 0
            # a client told "failed because late" must not hold the lock (its release has been applied)
            if not viol and not sim.viol:
                for rec in attempts:
                    late = [x for x in rec['cbs'] if x[2] - rec['t'] > aut / 2.0]
                    later_try = any(r2 is not rec and r2['client'] == rec['client'] and r2['lock'] == rec['lock'] and r2['t'] >= rec['t'] for r2 in attempts)
                    if late and not later_try and sim.table.get(rec['lock'], (None,))[0] == rec['client']:
                        held_since = sim.table[rec['lock']][1]
                        if held_since == rec['t']:
                            pa = [k[4] for k in sim.lock_cmds if k[:4] == ('acquired', rec['lock'], rec['client'], rec['t'])]
                            rel_committed = bool(pa) and any(k[0] == 'release' and k[1] == rec['lock'] and k[2] == rec['client'] and k[4] > max(pa) for k in sim.lock_cmds)
                            V('late-failed-client-keeps-lock' + ('' if rel_committed else ':release-never-committed'), '%s was told its tryAcquire(%s) failed (answer %.2f s after the attempt) but the lock table still names it holder: %r' % (
                                rec['client'], rec['lock'], late[0][2] - rec['t'], sim.table))
            # obtainability: holder stops prolonging -> another client obtains the lock after the auto-unlock time
            if not viol and not sim.viol and sim.table and len(clients()) >= 2:
                lock = sorted(sim.table)[0]
                holder, tlast = sim.table[lock]
                stopped.update(clients())
                other = [n for n in clients() if n != holder][0]
                Wall.t = max(Wall.t, tlast) + aut + 0.5
                for attempt in range(4):
                    # a definite refusal for lack of a leader (MISSING_LEADER with commandsWaitLeader=False, NOT_LEADER,
                    # LEADER_CHANGED, DISCARDED) says nothing about the lock: the client tries again once a leader is known
                    sim.rounds_until(lambda: sum(1 for n in sim.live() if sim.nodes[n]._isLeader()) == 1 and sim.nodes[other]._getLeader() is not None, 400)
                    rec = {'client': other, 'lock': lock, 't': Wall.t, 'cbs': [], 'seq': 10 ** 9 + attempt}
                    attempts.append(rec)
                    sim.call(other, lambda rec=rec: sim.nodes[other].mgr.tryAcquire(lock, callback=lambda r, e: rec['cbs'].append((r, e, Wall.t))))
                    for _ in range(200):
                        sim.calm_round()
                        sim.check(light=True)
                        if rec['cbs'] or sim.viol:
                            break
                    if sim.viol or not rec['cbs'] or rec['cbs'][0][1] not in (2, 3, 4, 5):
                        break
                if not sim.viol and rec['cbs'] != [(True, 0, Wall.t)]:
                    V('expired-lock-not-obtainable', 'lock %s last prolonged by %s at %.2f; %s tried at %.2f (autoUnlockTime %.1f) and got %r; table %r' % (
                        lock, holder, tlast, other, rec['t'], aut, rec['cbs'], sim.table))
        classes = simprop.base_classes(sim)
        contended = any(len(v) >= 2 for v in contention.values())
        if contended:
            classes.add('contended-lock')
        if sim.expired_while_held:
            classes.add('expiry-while-held')
        if any(x[2] - rec['t'] > aut / 2.0 for rec in attempts for x in rec['cbs']):
            classes.add('late-acquire-answer')
        nontrivial = contended and (sim.expired_while_held or bool(sim.net.stats.get('breaks')))
        res = simprop.result_for(PROP, sim, resolved, nontrivial, classes)
        res.violation = None
        if viol:
            res.violation = viol[0]
        else:
            own = [v for v in sim.all_viol if v[0] == 'C01' and v[1] == 'state-differs-from-fold']
            if own:
                res.violation = ('lock-table-differs-from-reference', own[0][2])
        return res
    finally:
        sim.destroy()


def shard(seed, n, tier):
    return simprop.standard_shard(PROP, strategy(tier), run_case, seed, n, tier)


def main(tier, seed, cases=None):
    return simprop.standard_main(PROP, LEVEL, __name__, RULE, ASSUMPTIONS, tier, seed, cases, quick=(8, 250), thorough=(16, 3000))


def replay(path):
    return runner.replay_file(PROP, path, run_case)
