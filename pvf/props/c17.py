"""C17 - code versions: stable method ids, cluster-wide switch, survives snapshot/restart."""
import shutil
import time

from hypothesis import strategies as st

from ..sim import cluster, gen, simprop, core
from .. import runner, env, findings
from ..runner import Result
import pysyncobj.pickle as ppickle
from pysyncobj import SyncObjConsumer, replicated

PROP = 'C17'
MANIFEST = {
    'engine': 'E4-model + E1-sim',
    'level': 'exploration',
    'technique': 'Hypothesis-generated class definitions (programs) with versioned replicated methods; independent reference enumeration of method ids; mixed old/new-code simulated clusters with version switch, compaction, restart and snapshot catch-up',
    'text': '(i) Programs: random method-name x version tables on the object and 0-3 consumers are turned into classes by exec; old code = methods with version <= t, new code = all (so every added method has a higher version than any old one). '
            'For every id of the old code the new code must map the same id to the same (consumer, name, version); both tables are compared with a reference sort written independently. '
            '(ii) Behaviour: a cluster mixing old-code and new-code nodes runs calls, setCodeVersion, compaction, restarts from journal+dump and a replica catching up from a snapshot; each implementation folds its own tag into the state, '
            'so equality with the reference fold (decoded with the reference id table) decides which implementation ran on every node at every position; calls must resolve to the newest implementation <= the submitter\'s enabled version; '
            'setCodeVersion must raise for unsupported/lower versions; a node lacking the enabled version must stop exactly below the version entry.',
    'note': 'Programs limited to 1-4 method names x 4 version levels (numbered 0-3, or a drawn monotone scale with multi-digit numbers such as 0/9/10/100) x <=3 consumers; behavioural part settles the cluster after every step (not schedule-adversarial).',
}
LEVEL = 'exploration'
RULE = ('case = (program: method tables for object + consumers, threshold t; mode pure|cluster; cluster: which nodes run old code, step list of call/set_version/compact/restart/isolate/heal). '
        'non-trivial = (pure) old and new code differ and old code has >=2 ids; (cluster) the version switch committed with >=1 call before and after it AND a restart or snapshot catch-up happened after it; distinct = distinct case digests')
ASSUMPTIONS = ['added methods have versions above every version of the old code (premise of the property)',
               'a call is bound to an implementation when it is submitted (by the submitter\'s enabled version), as the command carries the method id']

NAMES = ['a', 'b', 'ab', 'z']
# version numbers behind the abstract versions 0..3 of a generated program (monotone, so the premise of the property is kept);
# multi-digit numbers matter because method variants are named <name>_v<N> and anything that orders names as strings is wrong there
SCALES = [[0, 1, 2, 3], [0, 2, 9, 10], [0, 3, 10, 12], [1, 9, 10, 11], [0, 9, 10, 100], [2, 3, 20, 100], [0, 1, 10, 2 ** 31]]


def scaled(case):
    sc = SCALES[case.get('vscale', 0) % len(SCALES)]
    prog = case['prog']
    f = lambda table: [[n, sc[v]] for n, v in table]
    return dict(case, prog={'obj': f(prog['obj']), 'cons': [f(t) for t in prog['cons']], 't': sc[prog['t']]}, vmap=sc)


def table_strategy():
    return st.lists(st.tuples(st.sampled_from(NAMES), st.integers(0, 3)).map(list), max_size=6, unique_by=lambda t: tuple(t))


def prog_strategy():
    return st.fixed_dictionaries({
        'obj': table_strategy(),
        'cons': st.lists(table_strategy(), max_size=3),
        't': st.integers(0, 3),
    })


def strategy(tier, mode=None):
    step = st.tuples(st.sampled_from(['call', 'call', 'call', 'setver', 'compact', 'restart', 'isolate', 'heal']),
                     st.integers(0, 2), st.integers(0, 3), st.integers(0, 3)).map(list)
    return st.fixed_dictionaries({
        'prog': prog_strategy(),
        'mode': st.just(mode) if mode else st.sampled_from(['pure', 'cluster']),
        'old_nodes': st.integers(0, 3),      # bitmask over n1,n2 (n0 always runs new code)
        'vscale': st.sampled_from([0, 0] + list(range(1, len(SCALES)))),
        'rng': st.integers(0, 99),
        'chunk': st.sampled_from([7, 100, 65536]),
        'steps': st.lists(step, min_size=1, max_size=16),
    })


# ------------------------------------------------------------------ program -> classes

def methods_of(table, t=None):
    return sorted(set((n, v) for n, v in table if t is None or v <= t))


def reference_ids(prog, t=None):
    """Independent reference: ids in order of (version, consumer number (0 = object), method name)."""
    items = []
    for n, v in methods_of(prog['obj'], t):
        items.append((v, 0, n))
    for ci, table in enumerate(prog['cons']):
        for n, v in methods_of(table, t):
            items.append((v, ci + 1, n))
    items.sort(key=lambda x: (x[0], x[1], '%s_v%d' % (x[2], x[0])))
    return dict((i, (c, n, v)) for i, (v, c, n) in enumerate(items))


def class_source(clsname, base, table, t, owner):
    lines = ['class %s(%s):' % (clsname, base)]
    for n, v in sorted(methods_of(table, t), key=lambda x: (x[0], x[1])):
        lines.append('    @replicated(ver=%d)' % v)
        lines.append('    def %s(self, cid):' % n)
        lines.append('        return self._tag(%r, cid)' % ('%s_v%d' % (n, v)))
    lines.append('    pass')
    return '\n'.join(lines)


class ConsBase(SyncObjConsumer):
    def __init__(self):
        self._idx = None
        super(ConsBase, self).__init__()
        self.chain = 0

    def _tag(self, tag, cid):
        so = self._syncObj
        so._sim.on_apply(so, 'c%d.%s' % (self._idx, tag), cid)
        self.chain = core.fold_hash(self.chain, tag, cid)
        return (tag, self.chain)


class ObjBase(core.BareProbe):
    def __init__(self, selfAddr, others, conf, sim, name, consumers=None):
        self._cons = [c() for c in self._cons_classes]
        for i, c in enumerate(self._cons):
            c._idx = i + 1
        super(ObjBase, self).__init__(selfAddr, others, conf, sim, name, consumers=self._cons)

    def _tag(self, tag, cid):
        self._sim.on_apply(self, 'c0.%s' % tag, cid)
        self.chain = core.fold_hash(self.chain, tag, cid)
        return (tag, self.chain)

    def state_key(self):
        return (self.getCodeVersion(), self.chain) + tuple(c.chain for c in self._cons)


def build_classes(prog, t):
    ns = {'replicated': replicated, 'ObjBase': ObjBase, 'ConsBase': ConsBase}
    cons_classes = []
    for ci, table in enumerate(prog['cons']):
        src = class_source('Cons%d' % ci, 'ConsBase', table, t, ci + 1)
        exec(src, ns)
        cons_classes.append(ns['Cons%d' % ci])
    src = class_source('Obj', 'ObjBase', prog['obj'], t, 0)
    exec(src, ns)
    cls = ns['Obj']
    cls._cons_classes = cons_classes
    return cls


def actual_ids(obj):
    out = {}
    for i, m in obj._idToMethod.items():
        owner = m.__self__
        cidx = 0 if owner is obj else obj._cons.index(owner) + 1
        nm, v = m.__name__.rsplit('_v', 1)
        out[i] = (cidx, nm, int(v))
    return out


class VSim(cluster.Sim):
    def __init__(self, cfg, workdir, prog, classes):
        self.prog = prog
        self.classes = classes          # name -> class
        self.ref_new = reference_ids(prog)
        self.enabled_at = {1: 0}
        super(VSim, self).__init__(cfg, workdir)

    def start_node(self, name, others=None):
        self.probe_class = self.classes[name]
        return super(VSim, self).start_node(name, others)

    def decode(self, cmd):
        if len(cmd) == 0 or cmd[0] != 0:
            return None
        c = ppickle.loads(cmd[1:])
        fid, args = (c[0], tuple(c[1])) if isinstance(c, tuple) else (c, ())
        ref = self.ref_new.get(fid)
        if ref is None:
            return ('?%r' % fid, args)
        return ('c%d.%s_v%d' % ref, args)

    def extend_model(self, upto):
        m = self.vmodel
        while self.model_pos < upto:
            p = self.model_pos + 1
            g = self.G.get(p)
            if g is None:
                return False
            cmd = g[0]
            if cmd[:1] == b'\x03':
                m['ver'] = ppickle.loads(cmd[1:])
                m['switch_pos'].append(p)
            else:
                d = self.decode(cmd)
                if d is not None:
                    label, args = d
                    cidx = int(label[1:label.index('.')])
                    tag = label[label.index('.') + 1:]
                    m['chains'][cidx] = core.fold_hash(m['chains'][cidx], tag, args[0])
                    self.cid_positions[args[0]].add(p)
                    self.cid_label[args[0]] = label
                    exp = self.expected_label.get(args[0])
                    if exp is not None and exp != label:
                        self.V('C17', 'call-resolved-to-wrong-version',
                               'call cid %d was submitted on %s with enabled version %d and should run %s, but the committed command names %s' % (
                                   args[0], self.sub_node[args[0]], self.sub_ver[args[0]], exp, label))
            self.model_pos = p
            self.model_keys[p] = (m['ver'],) + tuple(m['chains'])
        return True


def prepare(sim):
    sim.vmodel = {'ver': 0, 'chains': [0] * (1 + len(sim.prog['cons'])), 'switch_pos': []}
    sim.model_keys = {1: (0,) + tuple(sim.vmodel['chains'])}
    sim.cid_label = {}
    sim.expected_label = {}
    sim.sub_node = {}
    sim.sub_ver = {}


class PreparedVSim(VSim):
    def __init__(self, cfg, workdir, prog, classes):
        self.vmodel = {'ver': 0, 'chains': [0] * (1 + len(prog['cons'])), 'switch_pos': []}
        self.cid_label = {}
        self.expected_label = {}
        self.sub_node = {}
        self.sub_ver = {}
        super(PreparedVSim, self).__init__(cfg, workdir, prog, classes)
        self.model_keys = {1: (0,) + tuple(self.vmodel['chains'])}


# ------------------------------------------------------------------ pure part

def run_pure(case):
    prog, t = case['prog'], case['prog']['t']
    old_cls = build_classes(prog, t)
    new_cls = build_classes(prog, None)
    sim = PreparedVSim({'n': 2, 'rng': 1, 'target': [PROP]}, None, prog, {'n0': old_cls, 'n1': new_cls})
    try:
        old, new = sim.nodes['n0'], sim.nodes['n1']
        ref_old, ref_new = reference_ids(prog, t), reference_ids(prog)
        a_old, a_new = actual_ids(old), actual_ids(new)
        classes = {'pure'}
        if a_old != ref_old:
            return ('id-table-differs-from-reference', 'old code %r: ids %r, reference enumeration %r' % (prog, a_old, ref_old)), classes, len(ref_old) >= 2 and ref_old != ref_new
        if a_new != ref_new:
            return ('id-table-differs-from-reference', 'new code %r: ids %r, reference enumeration %r' % (prog, a_new, ref_new)), classes, True
        for i, what in a_old.items():
            if a_new.get(i) != what:
                return ('old-id-reinterpreted', 'id %d means %r in the old code but %r in the new code (program %r)' % (i, what, a_new.get(i), prog)), classes, True
        # name table: which _vN a fresh call resolves to at enabled version 0 .. max
        for node, table_t in ((old, t), (new, None)):
            for e in sorted(set(range(0, 4)) | set(x + d for x in case.get('vmap', []) for d in (-1, 0, 1) if x + d >= 0)):
                node._SyncObj__onSetCodeVersion(e)
                for cidx, table in enumerate([prog['obj']] + prog['cons']):
                    for nm in set(n for n, v in methods_of(table, table_t)):
                        vs = [v for n, v in methods_of(table, table_t) if n == nm and v <= e]
                        key = nm if cidx == 0 else (id(node._cons[cidx - 1]), nm)
                        try:
                            got = node._getFuncName(key)
                        except KeyError:
                            got = None
                        want = ('%s_v%d' % (nm, max(vs))) if vs else None
                        if got != want:
                            return ('name-table-wrong', 'enabled version %d: %s on target %d resolves to %r, expected %r (program %r)' % (e, nm, cidx, got, want, prog)), classes, True
        if len(ref_old) != len(ref_new):
            classes.add('code-grew')
        return None, classes, (len(ref_old) >= 2 and ref_old != ref_new)
    finally:
        sim.destroy()


# ------------------------------------------------------------------ cluster part

def settle(sim, cond=None, rounds=40):
    for _ in range(rounds):
        sim.calm_round()
        sim.check(light=True)
        if sim.viol:
            return False
        if cond is not None and cond():
            return True
    return cond() if cond else True


def selfver(prog, t):
    vs = [v for n, v in methods_of(prog['obj'], t)]
    for table in prog['cons']:
        vs += [v for n, v in methods_of(table, t)]
    return max(vs) if vs else 0


def run_cluster(case):
    prog, t = case['prog'], case['prog']['t']
    old_cls = build_classes(prog, t)
    new_cls = build_classes(prog, None)
    names = ['n0', 'n1', 'n2']
    is_old = {'n0': False, 'n1': bool(case['old_nodes'] & 1), 'n2': bool(case['old_nodes'] & 2)}
    classes_by = dict((n, old_cls if is_old[n] else new_cls) for n in names)
    wd = simprop.new_workdir('c17')
    cfg = {'n': 3, 'rng': case['rng'], 'journal': True, 'dump': True, 'compact_chunk': case['chunk'], 'compact_min_entries': 100000,
           'target': [PROP, 'C01']}
    sim = PreparedVSim(cfg, wd, prog, classes_by)
    classes = {'cluster'}
    trace = []
    flags = {'calls_before': 0, 'calls_after': 0, 'switched': False, 'recovery_after_switch': False}
    viol = None
    stuck = set()
    try:
        simprop.boot(sim, need_leader=True)
        for kind, who, x, y in case['steps']:
            if sim.viol:
                break
            name = names[who % 3]
            obj = sim.nodes.get(name)
            if kind == 'call':
                if obj is None or name in stuck:
                    continue
                tables = [prog['obj']] + prog['cons']
                cidx = x % len(tables)
                tt = t if is_old[name] else None
                avail = sorted(set(n for n, v in methods_of(tables[cidx], tt)))
                if not avail:
                    continue
                nm = avail[y % len(avail)]
                e = obj.getCodeVersion()
                vs = [v for n, v in methods_of(tables[cidx], tt) if n == nm and v <= e]
                target = obj if cidx == 0 else obj._cons[cidx - 1]
                cid = sim.next_cid
                sim.next_cid += 1
                core.CLOCK.active = name
                try:
                    getattr(target, nm)(cid)
                    raised = None
                except KeyError as ex:
                    raised = ex
                trace.append(['call', name, 'c%d.%s' % (cidx, nm), 'enabled=%d' % e, 'raised' if raised else 'ok'])
                if raised is not None and vs:
                    viol = ('call-raised-although-implementation-enabled', '%s on %s (enabled version %d, implementations %r): %r' % (nm, name, e, vs, raised))
                    break
                if raised is None and not vs:
                    viol = ('call-accepted-without-enabled-implementation', '%s on %s: enabled version %d but no implementation <= it' % (nm, name, e))
                    break
                if raised is None:
                    sim.expected_label[cid] = 'c%d.%s_v%d' % (cidx, nm, max(vs))
                    sim.sub_node[cid] = name
                    sim.sub_ver[cid] = e
                    if flags['switched']:
                        flags['calls_after'] += 1
                    else:
                        flags['calls_before'] += 1
                settle(sim, rounds=6)
            elif kind == 'setver':
                if obj is None:
                    continue
                v = case.get('vmap', [0, 1, 2, 3])[x]
                e = obj.getCodeVersion()
                sv = selfver(prog, t if is_old[name] else None)
                cbs = []
                core.CLOCK.active = name
                try:
                    obj.setCodeVersion(v, callback=lambda r, er: cbs.append(er))
                    raised = None
                except Exception as ex:
                    raised = ex
                should = v > sv or v < e
                trace.append(['setver', name, v, 'self=%d enabled=%d' % (sv, e), 'raised' if raised else 'ok'])
                if should and raised is None:
                    viol = ('setCodeVersion-not-rejected', 'setCodeVersion(%d) on %s (own version %d, enabled %d) was accepted' % (v, name, sv, e))
                    break
                if not should and raised is not None:
                    viol = ('setCodeVersion-rejected-wrongly', 'setCodeVersion(%d) on %s (own version %d, enabled %d) raised %r' % (v, name, sv, e, raised))
                    break
                settle(sim, rounds=10)
                if sim.vmodel['ver'] > 0 and not flags['switched']:
                    flags['switched'] = True
                    classes.add('version-switched')
            elif kind == 'compact':
                if obj is None:
                    continue
                obj.forceLogCompaction()
                settle(sim, rounds=3)
                trace.append(['compact', name])
            elif kind == 'restart':
                if obj is None:
                    continue
                sim.stop_node(name, clean=True)
                settle(sim, rounds=3)
                sim.restart_node(name)
                settle(sim, rounds=30)
                trace.append(['restart', name])
                classes.add('restart')
                if flags['switched']:
                    flags['recovery_after_switch'] = True
            elif kind == 'isolate':
                sim.op_partition(1 << (who % 3), 0, 0)
                trace.append(['isolate', name])
            elif kind == 'heal':
                before = sim.snapshot_msgs
                sim.blocked = set()
                settle(sim, rounds=40)
                trace.append(['heal'])
                if sim.snapshot_msgs > before:
                    classes.add('snapshot-catch-up')
                    if flags['switched']:
                        flags['recovery_after_switch'] = True
            # nodes lacking the enabled version must stop right below the version entry
            for n in names:
                o = sim.nodes.get(n)
                if o is None:
                    continue
                sv = selfver(prog, t if is_old[n] else None)
                for p in sim.vmodel['switch_pos']:
                    want = ppickle.loads(sim.G[p][0][1:])
                    if want > sv:
                        stuck.add(n)
                        if o.raftLastApplied >= p:
                            viol = ('node-applied-past-unsupported-version', '%s supports version %d but applied index %d passed the entry at %d enabling version %d' % (n, sv, o.raftLastApplied, p, want))
                        break
            if viol:
                break
        if viol is None and not sim.viol:
            sim.blocked = set()
            def converged():
                top = max([sim.nodes[n].raftCommitIndex for n in sim.live()] or [1])
                return (sum(1 for n in sim.live() if sim.nodes[n]._isLeader()) == 1 and
                        all(sim.nodes[n].raftLastApplied >= top for n in sim.live() if n not in stuck))
            settle(sim, converged, rounds=1500)     # 30 virtual seconds: > 20 election timeouts
            for n in names:                         # a version entry may have committed only now
                sv = selfver(prog, t if is_old[n] else None)
                if any(ppickle.loads(sim.G[p][0][1:]) > sv for p in sim.vmodel['switch_pos']):
                    stuck.add(n)
            # every node that supports the enabled version converges to the full fold
            top = max([sim.nodes[n].raftCommitIndex for n in sim.live()] or [1])
            for n in sim.live():
                if n not in stuck and sim.nodes[n].raftLastApplied < top:
                    viol = ('node-did-not-converge', '%s applied %d of %d; escaped %r; trace %r' % (n, sim.nodes[n].raftLastApplied, top, sim.escaped[:2], trace))
                    break
        if viol is None and sim.viol:
            v = sim.viol[0]
            viol = (v[1], v[2] + '; trace %r' % (trace,))
        if stuck:
            classes.add('node-without-enabled-version')
    finally:
        sim.destroy()
        shutil.rmtree(wd, ignore_errors=True)
    nontrivial = flags['switched'] and flags['calls_before'] >= 1 and flags['calls_after'] >= 1 and flags['recovery_after_switch']
    return viol, classes, nontrivial, trace


def run_case(case):
    case = scaled(case)
    if case['mode'] == 'pure':
        v, classes, nontrivial = run_pure(case)
        trace = []
    else:
        v, classes, nontrivial, trace = run_cluster(case)
    return Result(nontrivial=nontrivial, classes=sorted(classes), violation=v,
                  sample={'program': case['prog'], 'versions': case['vmap'], 'mode': case['mode'], 'old_nodes_mask': case['old_nodes'], 'steps': trace[:20]})


def shard(seed, n, tier, mode=None):
    stats = runner.Stats()
    runner.explore(PROP, strategy(tier, mode), run_case, n, seed, stats, shrink=True)
    return stats


def main(tier, seed, cases=None):
    t0 = time.time()
    if tier == 'quick':
        kws = [dict(seed=seed * 1000 + i, n=cases or 600, tier=tier, mode='pure') for i in range(2)]
        kws += [dict(seed=seed * 1000 + 50 + i, n=cases or 200, tier=tier, mode='cluster') for i in range(10)]
    else:
        kws = [dict(seed=seed * 1000 + i, n=cases or 5000, tier=tier, mode='pure') for i in range(4)]
        kws += [dict(seed=seed * 1000 + 50 + i, n=cases or 2000, tier=tier, mode='cluster') for i in range(12)]
    stats = runner.run_shards(__name__, 'shard', kws)
    return runner.finish(PROP, LEVEL, tier, seed, stats, RULE, ASSUMPTIONS, t0)


def replay(path):
    return runner.replay_file(PROP, path, run_case)
