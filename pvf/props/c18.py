"""C18 - read-only nodes follow but never influence the cluster."""
from hypothesis import strategies as st

from ..sim import cluster, gen, simprop, core
from .. import runner, findings
from ..runner import Result

PROP = 'C18'
MANIFEST = {
    'engine': 'E1-sim',
    'level': 'exploration',
    'technique': 'Hypothesis-generated schedules with 0-3 read-only nodes joining/leaving/re-joining, partitions that leave voters without a majority, submissions through observers; voter-only majority monitors and observer state==fold oracle',
    'text': 'Read-only nodes (SyncObj(None, voters)) dial every voter and are known to each voter under that voter\'s own counter id, as TCPTransport does. Monitors: an observer never sends request_vote/response_vote/append_entries '
            'and never becomes leader; the commit-majority and election monitors count voters only, so a commit or election that needed an observer is a violation; observers satisfy state == fold(committed prefix) at every step '
            'and converge with the voters in a closing phase; submissions through observers obey the callback contract of C02.',
    'note': 'Network model of pvf/sim (observer ids per voter connection); <=3 observers, 2-5 voters.',
}
LEVEL = 'exploration'
RULE = ('case = (configuration with n_ro in 0..3; step list <=250 incl. rojoin/roleave, partitions, submissions on any node). '
        'non-trivial = an observer was connected to a leader that could reach fewer than a majority of voters, or an observer re-joined after a leader change, or an observer submission got SUCCESS; distinct = distinct case digests')
ASSUMPTIONS = ['no node loses its memory (observers that leave come back empty, as a fresh process)']

EXTRA = [('rojoin', 5), ('roleave', 4)]
OWN = {'C18': None, 'C04': {'commit-without-majority', 'committed-entry-differs'}, 'C03': {'two-leaders-in-term', 'leader-without-majority-of-votes'},
       'C01': None, 'C02': None}


def strategy(tier):
    return gen.case_strategy(150 if tier == 'quick' else 250, profiles=['mixed', 'isolation', 'faulty', 'pipelining'],
                             fixed=None).flatmap(lambda c: st.integers(0, 3).map(lambda k: _with_ro(c, k)))


def _with_ro(case, k):
    case = dict(case)
    case['cfg'] = dict(case['cfg'], n_ro=k)
    return case


def run_case(case):
    cfg = dict(case['cfg'])
    cfg['target'] = list(OWN)
    sim = cluster.Sim(cfg)
    try:
        resolved = simprop.run_steps(sim, case, EXTRA)
        own = [v for v in sim.all_viol if v[0] in OWN and (OWN[v[0]] is None or v[1] in OWN[v[0]])]
        converged = True
        if not own and not sim.viol:        # (a monitor of another property stopped the case: state is tainted, no closing verdict)
            # closing phase: observers must converge with the voters
            sim.blocked = set()
            sim.quiet_config()
            for n in sim.ro:
                if n not in sim.nodes:
                    sim.start_node(n)
            def done():
                live = sim.live()
                top = max(sim.nodes[n].raftCommitIndex for n in live)
                return (sum(1 for n in live if sim.nodes[n]._isLeader()) == 1 and all(sim.nodes[n].raftLastApplied >= top for n in live)
                        and len(set(sim.nodes[n].state_key() for n in live)) == 1)
            for _ in range(1500):
                sim.calm_round()
                sim.check(light=True)
                if sim.viol or done():
                    break
            own = [v for v in sim.all_viol if v[0] in OWN and (OWN[v[0]] is None or v[1] in OWN[v[0]])]
            if not own and not done():
                converged = False
        classes = simprop.base_classes(sim)
        classes.add('n_ro=%d' % cfg['n_ro'])
        ro_success = any(s['role'] == 'ro' and any(e == 0 for _, e, _ in s['cbs']) for s in sim.subs.values())
        if ro_success:
            classes.add('observer-submission-success')
        if sim.ro_with_minority:
            classes.add('observer-with-minority-leader')
        if sim.ro_rejoined_after_leader_change:
            classes.add('observer-rejoined-after-leader-change')
        nontrivial = cfg['n_ro'] > 0 and (sim.ro_with_minority or sim.ro_rejoined_after_leader_change or ro_success)
        res = simprop.result_for(PROP, sim, resolved, nontrivial, classes)
        res.violation = None
        if own:
            unknown = [v for v in own if findings.match(PROP, '%s:%s' % (v[0], v[1])) is None]
            v = unknown[0] if unknown else own[0]
            res.violation = ('%s:%s' % (v[0], v[1]), v[2])
        elif not converged:
            res.violation = ('observers-did-not-converge', 'after 30 virtual seconds without faults: applied %r, leaders %r, escaped %r' % (
                dict((n, sim.nodes[n].raftLastApplied) for n in sim.live()), [n for n in sim.live() if sim.nodes[n]._isLeader()], sim.escaped[:2]))
        return res
    finally:
        sim.destroy()


def shard(seed, n, tier):
    return simprop.standard_shard(PROP, strategy(tier), run_case, seed, n, tier)


def main(tier, seed, cases=None):
    return simprop.standard_main(PROP, LEVEL, __name__, RULE, ASSUMPTIONS, tier, seed, cases, quick=(8, 250), thorough=(16, 3000))


def replay(path):
    return runner.replay_file(PROP, path, run_case)
