"""C19 - thread-safe calls: each applied once, sync returns its own result."""
import collections
import sys
import threading
import time

from hypothesis import strategies as st

from .. import runner, env, findings
from ..runner import Result

PROP = 'C19'
MANIFEST = {
    'engine': 'E6-threads',
    'level': 'exploration',
    'technique': 'Hypothesis-generated call plans (N caller threads x M calls, async/callback/sync/replicated_sync, queue limits, jitter) against real auto-tick threads over an in-memory thread-safe transport; timing-independent ledger oracle',
    'text': 'Real SyncObj objects with autoTick=True (1 or 3 nodes, real tick threads, real clock) exchange pickled messages through thread-safe inboxes drained by each node\'s own tick thread. Generated plans start N application threads that '
            'call replicated methods concurrently in four modes with generated micro-sleeps (switch interval 1 us). Oracle after joining all threads and quiescing: every command id occurs at most once in the applied sequence of every replica and the '
            'replicas agree; a call reported SUCCESS occurs exactly once; QUEUE_FULL/other definite failures never occur in it; each callback fired at most once; each sync call returned (its own id, its position in the sequence) '
            'or raised SyncObjException with a FAIL_REASON or \'Timeout\' (a timeout is an open outcome, never a violation); once all queues and pending-call tables are empty, every callback-mode call has had its callback.',
    'note': 'The schedule is perturbed by generated data but not owned: a green run says little about rare races and a failure may not replay; this is the weakest check of the set (see DESIGN.md section 4).',
}
LEVEL = 'exploration'
RULE = ('case = (1|3 nodes, batch mode, commandsQueueSize in {0,1,5,100000}, N in 1..8 threads, per thread a list of (mode, target node, micro-sleep)). '
        'non-trivial = calls of >=2 different threads were in the command queue of one node at the same moment (measured on the instrumented queue); distinct = distinct case digests')
ASSUMPTIONS = ['thread interleavings are sampled by the OS scheduler, not enumerated', 'sync calls use a 30 s timeout or a generated short one (0.5-20 ms) so that calls that time out are followed by further calls of the same thread; a timeout is counted, not judged']

_NET = {}


def make_classes():
    from pysyncobj import SyncObj, replicated, replicated_sync
    from pysyncobj.transport import Transport
    import pysyncobj.pickle as ppickle

    class TTransport(Transport):
        def __init__(self, syncObj, selfNode, otherNodes):
            super(TTransport, self).__init__(syncObj, selfNode, otherNodes)
            self.addr = selfNode.address
            self.inbox = collections.deque()
            _NET[self.addr] = self
            self.others = dict((n.address, n) for n in otherNodes)
            self.announced = False
            self.dead = False
            syncObj.addOnTickCallback(self._drain)

        def _drain(self):
            if not self.announced:
                self.announced = True
                for n in self.others.values():
                    self._onNodeConnected(n)
            while True:
                try:
                    src, data = self.inbox.popleft()
                except IndexError:
                    break
                self._onMessageReceived(self.others[src], ppickle.loads(data))

        def send(self, node, message):
            t = _NET.get(node.address)
            if t is None or t.dead or self.dead:
                return False
            t.inbox.append((self.addr, ppickle.dumps(message)))
            return True

        def destroy(self):
            self.dead = True

    class TProbe(SyncObj):
        def __init__(self, selfAddr, others, conf):
            super(TProbe, self).__init__(selfAddr, others, conf, transportClass=TTransport)
            self.applied = []

        @replicated
        def op(self, cid):
            self.applied.append(cid)
            return (cid, len(self.applied))

        @replicated_sync
        def op_sync(self, cid):
            self.applied.append(cid)
            return (cid, len(self.applied))

    return TProbe


def strategy(tier):
    call = st.tuples(st.sampled_from(['async', 'callback', 'sync', 'sync', 'rsync', 'rsync']), st.integers(0, 2), st.sampled_from([0, 0, 0, 1, 5, 50]),
                     st.sampled_from([30, 30, 30, 0.0005, 0.003, 0.02])).map(list)
    return st.fixed_dictionaries({
        'n': st.sampled_from([1, 3, 3]), 'batch': st.booleans(), 'queue': st.sampled_from([0, 1, 5, 100000, 100000]),
        'threads': st.lists(st.lists(call, min_size=1, max_size=20 if tier == 'quick' else 50), min_size=1, max_size=8),
    })


def run_case(case):
    from pysyncobj import SyncObjConf, SyncObjException, FAIL_REASON
    import pysyncobj.fast_queue as FQ
    TProbe = make_classes()
    _NET.clear()
    sys.setswitchinterval(1e-6)
    n = case['n']
    addrs = ['10.1.0.%d:4321' % (i + 1) for i in range(n)]
    objs = []
    overlap = [False]
    in_queue = collections.defaultdict(set)
    orig_put, orig_get = FQ.FastQueue.put_nowait, FQ.FastQueue.get_nowait

    def put(q, value):
        r = orig_put(q, value)
        s = in_queue[id(q)]
        s.add(threading.get_ident())
        if len(s) >= 2:
            overlap[0] = True
        return r

    def get(q):
        r = orig_get(q)
        if len(q._FastQueue__queue) == 0:
            in_queue[id(q)].clear()
        return r
    FQ.FastQueue.put_nowait, FQ.FastQueue.get_nowait = put, get
    viol = None
    records = []
    lock = threading.Lock()
    try:
        for i in range(n):
            conf = SyncObjConf(autoTick=True, autoTickPeriod=0.002, appendEntriesUseBatch=case['batch'], commandsQueueSize=case['queue'],
                               raftMinTimeout=0.4, raftMaxTimeout=0.9, appendEntriesPeriod=0.05, commandsWaitLeader=True)
            objs.append(TProbe(addrs[i], [a for a in addrs if a != addrs[i]], conf))
        t0 = time.time()
        while time.time() - t0 < 30:
            if sum(1 for o in objs if o._isLeader()) == 1 and all(o._getLeader() is not None for o in objs):
                break
            time.sleep(0.01)
        else:
            return Result(nontrivial=False, classes=['inconclusive:no-leader-within-30s-real-time'], violation=None, sample=None)
        cid_counter = [0]

        def worker(tid, plan):
            for mode, target, usleep, tmo in plan:
                with lock:
                    cid_counter[0] += 1
                    cid = cid_counter[0]
                obj = objs[target % n]
                rec = {'cid': cid, 'mode': mode, 'cbs': [], 'ret': None, 'exc': None, 'thread': tid}
                with lock:
                    records.append(rec)
                try:
                    if mode == 'async':
                        obj.op(cid)
                    elif mode == 'callback':
                        obj.op(cid, callback=lambda r, e, rec=rec: rec['cbs'].append((r, e)))
                    elif mode == 'sync':
                        rec['ret'] = obj.op(cid, sync=True, timeout=tmo)
                    else:
                        rec['ret'] = obj.op_sync(cid, timeout=tmo)
                except SyncObjException as e:
                    rec['exc'] = e.errorCode
                except Exception as e:
                    rec['exc'] = 'unexpected:%r' % (e,)
                if usleep:
                    time.sleep(usleep * 1e-6)
        threads = [threading.Thread(target=worker, args=(i, plan)) for i, plan in enumerate(case['threads'])]
        for t in threads:
            t.start()
        for t in threads:
            t.join(120)
        if any(t.is_alive() for t in threads):
            return Result(nontrivial=False, classes=['inconclusive:caller-threads-still-running-after-120s'], violation=None, sample=None)
        # quiesce: all replicas applied the same number of commands and nothing changes any more
        last, stable, t0 = None, 0, time.time()
        while time.time() - t0 < 30:
            cur = tuple(len(o.applied) for o in objs) + tuple(o.raftLastApplied for o in objs)
            if cur == last and len(set(len(o.applied) for o in objs)) == 1:
                stable += 1
                if stable >= 20:
                    break
            else:
                stable = 0
            last = cur
            time.sleep(0.01)
        seqs = [list(o.applied) for o in objs]
        seq = seqs[0]
        if any(s != seq for s in seqs):
            viol = ('replicas-disagree', 'applied sequences differ between replicas: lengths %r' % ([len(s) for s in seqs],))
        pos = {}
        if viol is None:
            for i, c in enumerate(seq):
                if c in pos:
                    viol = ('command-applied-twice', 'cid %d applied at positions %d and %d' % (c, pos[c] + 1, i + 1))
                    break
                pos[c] = i
        if viol is None:
            for rec in records:
                cid = rec['cid']
                if len(rec['cbs']) > 1:
                    viol = ('callback-fired-twice', 'cid %d: callbacks %r' % (cid, rec['cbs']))
                    break
                outcome = None
                if rec['mode'] == 'callback' and rec['cbs']:
                    r, e = rec['cbs'][0]
                    outcome = ('ok', r) if e == FAIL_REASON.SUCCESS else ('fail', e)
                elif rec['mode'] in ('sync', 'rsync'):
                    if rec['exc'] is not None:
                        if isinstance(rec['exc'], str) and rec['exc'].startswith('unexpected'):
                            viol = ('sync-call-raised-unexpected', 'cid %d (%s): %s' % (cid, rec['mode'], rec['exc']))
                            break
                        outcome = ('timeout', None) if rec['exc'] == 'Timeout' else ('fail', rec['exc'])
                    else:
                        outcome = ('ok', rec['ret'])
                if outcome is None:
                    continue
                if outcome[0] == 'ok':
                    if cid not in pos:
                        viol = ('success-but-not-applied', 'cid %d (%s, thread %d) reported success %r but is not in the applied sequence' % (cid, rec['mode'], rec['thread'], outcome[1]))
                        break
                    want = (cid, pos[cid] + 1)
                    if tuple(outcome[1]) != want:
                        viol = ('result-of-another-command', 'cid %d (%s, thread %d) got result %r, its own command is %r' % (cid, rec['mode'], rec['thread'], outcome[1], want))
                        break
                elif outcome[0] == 'fail' and outcome[1] in (FAIL_REASON.QUEUE_FULL, FAIL_REASON.MISSING_LEADER, FAIL_REASON.NOT_LEADER, FAIL_REASON.REQUEST_DENIED, FAIL_REASON.DISCARDED):
                    if cid in pos:
                        viol = ('applied-after-definite-failure', 'cid %d reported failure %r but was applied at position %d' % (cid, outcome[1], pos[cid] + 1))
                        break
        if viol is None:
            # nothing is lost in this harness (no message loss, no node stops): once every queue and every table of
            # pending calls is empty, a callback-mode call whose callback never fired has been dropped silently
            def idle(o):
                return (len(o._SyncObj__commandsQueue._FastQueue__queue) == 0 and not o._SyncObj__commandsWaitingReply and
                        not any(o._SyncObj__commandsWaitingCommit.values()))
            if all(idle(o) for o in objs) and sum(1 for o in objs if o._isLeader()) == 1:
                for rec in records:
                    if rec['mode'] == 'callback' and not rec['cbs']:
                        viol = ('call-dropped-silently', 'cid %d (callback mode, thread %d): no callback although all queues and pending tables are empty and the cluster is healthy; applied: %s' % (
                            rec['cid'], rec['thread'], rec['cid'] in pos))
                        break
        classes = set(['n=%d' % n, 'queue=%d' % case['queue']])
        for rec in records:
            classes.add('mode:' + rec['mode'])
            if rec['exc'] == 'Timeout':
                classes.add('timeout')
            elif rec['exc'] is not None:
                classes.add('raised:%s' % (rec['exc'],))
        if overlap[0]:
            classes.add('queue-shared-by-threads')
        return Result(nontrivial=overlap[0], classes=sorted(classes), violation=viol,
                      sample={'n': n, 'batch': case['batch'], 'queue': case['queue'], 'threads': len(case['threads']), 'calls': len(records), 'applied': len(seq)})
    finally:
        FQ.FastQueue.put_nowait, FQ.FastQueue.get_nowait = orig_put, orig_get
        for o in objs:
            try:
                o.destroy_synchronous()
            except Exception:
                pass
        sys.setswitchinterval(0.005)


def shard(seed, n, tier):
    stats = runner.Stats()
    runner.explore(PROP, strategy(tier), run_case, n, seed, stats, shrink=False)
    return stats


def main(tier, seed, cases=None):
    t0 = time.time()
    shards, n = (8, 12) if tier == "quick" else (16, 150)
    if cases:
        n = cases
    kws = [dict(seed=seed * 1000 + i, n=n, tier=tier) for i in range(shards)]
    stats = runner.run_shards(__name__, 'shard', kws)
    return runner.finish(PROP, LEVEL, tier, seed, stats, RULE, ASSUMPTIONS, t0)


def replay(path):
    return runner.replay_file(PROP, path, run_case)
