"""C20 - a leader cut off from the majority steps down in bounded time; quorum indicator."""
from ..sim import cluster, gen, simprop, core
from .. import runner

PROP = 'C20'
MANIFEST = {
    'engine': 'E1-sim',
    'level': 'exploration',
    'technique': 'Hypothesis-generated partition schedules under per-node virtual clocks; ghost last-heard table checked right after every tick; submissions on isolated nodes; hasQuorum compared with the record of connection notifications',
    'text': 'The simulator records for every node the (own-clock) time of the last message of any kind delivered from each peer (initialised when it becomes leader, as the code does). Right after every tick at node time t: '
            'a node that still reports leader must have heard from a majority (self included) within leaderFallbackTimeout before t. A command submitted on a node that is cut off from a majority (by partition/kill) and '
            'still cut off when its callback fires must not get SUCCESS. After every step hasQuorum must equal "notified-connected voters (+self) > half of the voters it knows". Sizes 2-5, timeouts 0.11 s - 30 s.',
    'note': '"heard" counts any delivered message, a superset of what the code counts (replies), so the monitor is never stricter than the statement; the clock advances with every read and send, the check uses the time at the start of the tick.',
}
LEVEL = 'exploration'
RULE = ('case = (configuration with leaderFallbackTimeout in {0.11,0.5,2,30}, sizes 2-5; step list <=250 with partitions/heals/ticks/submissions; every 4th case with dynamic membership (nodes added/removed), where only the has-quorum indicator is judged). '
        'non-trivial = a leader was cut off from the majority for longer than the timeout (on its own clock) and was later reconnected; distinct = distinct case digests')
ASSUMPTIONS = ['"cut off" = partitions or kills leave fewer than a majority of voters reachable (plain connection breaks are not partitions)']

PROFILE_W = None


def strategy(tier):
    from hypothesis import strategies as st
    base = gen.case_strategy(150 if tier == 'quick' else 250, profiles=['isolation', 'isolation', 'elections', 'mixed'])
    # every 4th case runs with dynamic membership (nodes added and removed, see C10): "the voters it knows" then changes over time.
    # In those cases only the has-quorum indicator is judged (the step-down monitors assume a fixed member set).
    return st.tuples(base, st.sampled_from([False, False, False, True])).map(lambda t: dict(t[0], cfg=dict(t[0]['cfg'], dynamic=t[1])))


def run_case(case):
    cfg = dict(case['cfg'])
    cfg['target'] = [PROP]
    dyn = bool(cfg.get('dynamic'))
    if dyn:
        from . import c10
        sim = c10.DynSim(cfg)
        c10.install_monitors(sim)
        sim.target = []             # nothing stops the case; the has-quorum verdict is picked below
    else:
        sim = cluster.Sim(cfg)
    try:
        resolved = simprop.run_steps(sim, case, c10.EXTRA) if dyn else simprop.run_steps(sim, case)
        classes = simprop.base_classes(sim)
        if dyn:
            classes.add('dynamic-membership')
            if sim.counters.get('removed_node_shut_down'):
                classes.add('node-removed')
            sim.all_viol = [v for v in sim.all_viol if v[0] != PROP or v[1] == 'hasQuorum-wrong']
        if sim.isolated_long:
            classes.add('leader-isolated-beyond-timeout')
        classes.add('fallback=%s' % cfg['fallback'])
        nontrivial = sim.rejoined_after_isolation
        return simprop.result_for(PROP, sim, resolved, nontrivial, classes)
    finally:
        sim.destroy()


def shard(seed, n, tier):
    return simprop.standard_shard(PROP, strategy(tier), run_case, seed, n, tier)


def main(tier, seed, cases=None):
    return simprop.standard_main(PROP, LEVEL, __name__, RULE, ASSUMPTIONS, tier, seed, cases, quick=(8, 300), thorough=(16, 4000))


def replay(path):
    return runner.replay_file(PROP, path, run_case)
