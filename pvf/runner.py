"""Shared driver: Hypothesis exploration of (case -> result) functions, sharded
over processes, with known-finding handling, shrinking, replay files and
evidence.

A property module provides
    strategy(tier)            -> Hypothesis strategy producing JSON-able cases
    run_case(case)            -> Result
and calls runner.main(...).  A replay file is {"property":…, "case":…}; replay
runs run_case(case) in a plain loop without Hypothesis.
"""
import collections
import hashlib
import json
import multiprocessing
import os
import sys
import time
import traceback

from . import env, findings


class Result(object):
    def __init__(self, nontrivial=False, classes=(), violation=None, sample=None, excluded=0):
        self.nontrivial = nontrivial
        self.classes = list(classes)
        self.violation = violation          # None or (signature, detail)
        self.sample = sample
        self.excluded = excluded


class Found(Exception):
    pass


class HarnessError(Exception):
    pass


def digest(case):
    return hashlib.sha1(json.dumps(case, sort_keys=True, default=repr).encode()).hexdigest()[:16]


class Stats(object):
    def __init__(self):
        self.evaluations = 0
        self.nontrivial = set()
        self.classes = collections.Counter()
        self.samples = []
        self.known = collections.Counter()      # signature -> count
        self.known_what = {}
        self.violations = []                    # [(signature, detail, case)]
        self.inconclusive = []
        self.extra = collections.Counter()
        self.sets = collections.defaultdict(set)

    def record(self, case, res, keep_samples=4):
        self.evaluations += 1
        for c in res.classes:
            self.classes[c] += 1
        if res.excluded:
            self.extra['excluded_by_construction'] += res.excluded
        if res.nontrivial:
            d = digest(case)
            if d not in self.nontrivial:
                self.nontrivial.add(d)
                if len(self.samples) < keep_samples and res.sample is not None:
                    self.samples.append(res.sample)

    def merge(self, other):
        self.evaluations += other.evaluations
        self.nontrivial |= other.nontrivial
        self.classes.update(other.classes)
        for s in other.samples:
            if len(self.samples) < 5:
                self.samples.append(s)
        self.known.update(other.known)
        self.known_what.update(other.known_what)
        self.violations.extend(other.violations)
        self.inconclusive.extend(other.inconclusive)
        self.extra.update(other.extra)
        for k, v in other.sets.items():
            self.sets[k] |= v


def explore(prop, strategy, run_case, n, seed, stats, shrink=True, budget_s=None, shrink_budget_s=None):
    """Run n generated cases. Unknown violations are shrunk and appended to
    stats.violations (first root cause only: Hypothesis stops at the first)."""
    import hypothesis
    from hypothesis import given, settings, HealthCheck, Phase

    phases = [Phase.generate] + ([Phase.shrink] if shrink else [])
    if shrink_budget_s is None:
        shrink_budget_s = 45 if env.tier() == 'quick' else 240
    last = {}
    t0 = time.time()

    class Budget(Exception):
        pass

    failing = {}

    def body(case):
        sig = _body(case)
        if sig is not None:
            raise Found(sig)        # single raise site: Hypothesis keys failures by origin

    def _body(case):
        if budget_s is not None and time.time() - t0 > budget_s and 'fail' not in last:
            raise Budget()
        if 'fail' in last:
            # shrinking: bounded by a wall-clock budget after which unseen candidates count as passing and
            # known failing ones fail again without being re-run (so Hypothesis finishes with its best example)
            d = digest(case)
            if d in failing:
                last['fail'] = failing[d]
                return failing[d][0]
            if time.time() - last['t'] > shrink_budget_s:
                return None
        res = _guarded(run_case, case, stats)
        if res is None:
            return None
        if 'fail' not in last:
            stats.record(case, res)
        if res.violation is not None:
            sig, detail = res.violation
            kf = findings.match(prop, sig)
            if kf is not None:
                if 'fail' not in last:
                    stats.known[sig] += 1
                    stats.known_what[sig] = kf.get('what', sig)
                return None
            if 'fail' in last and sig != last['first_sig']:
                return None             # keep shrinking the same root cause
            last['fail'] = (sig, detail, getattr(res, 'canonical_case', None) or case)
            last.setdefault('first_sig', sig)
            last.setdefault('t', time.time())
            failing[digest(case)] = last['fail']
            return sig
        return None

    test = given(strategy)(body)
    test = settings(max_examples=n, database=None, deadline=None, derandomize=False,
                    phases=phases, report_multiple_bugs=False,
                    suppress_health_check=list(HealthCheck), print_blob=False)(test)
    test = hypothesis.seed(seed)(test)
    try:
        test()
    except Found:
        stats.violations.append(last['fail'])
    except Budget:
        stats.inconclusive.append('wall-clock budget of %ss reached after %d cases' % (budget_s, stats.evaluations))
    except BaseException as e:
        if 'fail' in last:
            # e.g. Flaky raised while shrinking a genuine failure: keep the failure
            stats.violations.append(last['fail'])
            stats.inconclusive.append('shrinking aborted: %r' % (e,))
        else:
            name = type(e).__name__
            if name in ('Unsatisfiable',):
                raise HarnessError('generator unsatisfiable: %r' % (e,))
            raise


class _CaseTimeout(BaseException):
    pass


CASE_TIMEOUT_S = int(os.environ.get('VERIF_CASE_TIMEOUT', '180'))


def _guarded(run_case, case, stats):
    """Run one case under a generous wall-clock watchdog. A case that does not finish is
    *inconclusive* (wall clock is never a verdict): it is skipped and counted."""
    if os.environ.get('VERIF_DEBUG_CASELOG'):
        with open('%s.%d' % (os.environ['VERIF_DEBUG_CASELOG'], os.getpid()), 'a') as f:
            f.write(json.dumps(case) + '\n')
    import signal

    def onalarm(signum, frame):
        raise _CaseTimeout()
    try:
        old = signal.signal(signal.SIGALRM, onalarm)
    except ValueError:
        return run_case(case)
    signal.alarm(CASE_TIMEOUT_S)
    try:
        return run_case(case)
    except _CaseTimeout:
        stats.inconclusive.append('a case did not finish within %d s and was skipped (digest %s)' % (CASE_TIMEOUT_S, digest(case)))
        stats.extra['cases_skipped_by_watchdog'] += 1
        return None
    finally:
        signal.alarm(0)
        signal.signal(signal.SIGALRM, old)


def _shard_entry(args):
    modname, funcname, kwargs = args
    try:
        import importlib
        mod = importlib.import_module(modname)
        st = getattr(mod, funcname)(**kwargs)
        return ('ok', st)
    except BaseException:
        return ('err', traceback.format_exc())


def run_shards(modname, funcname, shard_kwargs, procs=None):
    """Run funcname(**kw) for every kw in shard_kwargs in worker processes;
    each returns a Stats. Returns the merged Stats."""
    procs = procs or min(len(shard_kwargs), int(os.environ.get('VERIF_PROCS', '16')))
    total = Stats()
    if procs <= 1 or len(shard_kwargs) == 1:
        outs = [_shard_entry((modname, funcname, kw)) for kw in shard_kwargs]
    else:
        ctx = multiprocessing.get_context('fork')
        with ctx.Pool(procs) as pool:
            outs = pool.map(_shard_entry, [(modname, funcname, kw) for kw in shard_kwargs], chunksize=1)
    for tag, val in outs:
        if tag == 'err':
            raise HarnessError(val)
        total.merge(val)
    return total


def write_replay(prop, sig, detail, case):
    d = os.path.join(env.OUT, 'replays')
    os.makedirs(d, exist_ok=True)
    name = '%s-%s.json' % (prop, digest([sig, case]))
    path = os.path.join(d, name)
    with open(path, 'w') as f:
        json.dump({'property': prop, 'signature': sig, 'detail': detail, 'case': case}, f, indent=1, default=repr)
    return path


def write_evidence(prop, level, tier, seed, stats, rule, assumptions, wall_s, extra=None):
    cov = {
        'evaluations': stats.evaluations,
        'distinct_nontrivial': len(stats.nontrivial),
        'rule': rule,
        'samples': stats.samples[:5] if stats.samples else [],
        'case_classes': dict(sorted(stats.classes.items())),
        'known_findings_hit': dict(stats.known),
        'counters': dict(stats.extra),
        'distinct_sets': dict((k, len(v)) for k, v in stats.sets.items()),
    }
    if stats.inconclusive:
        cov['inconclusive'] = stats.inconclusive
    if extra:
        cov.update(extra)
    ev = {
        'property_id': prop,
        'tier': tier,
        'seed': seed,
        'level': level,
        'coverage': cov,
        'assumptions': list(assumptions),
        'wall_s': round(wall_s, 2),
        'violations': len(stats.violations) - stats.extra.get('violations_not_reproduced', 0),
    }
    d = os.path.join(env.OUT, 'evidence')
    os.makedirs(d, exist_ok=True)
    tmp = os.path.join(d, '.%s.json.tmp' % prop)
    with open(tmp, 'w') as f:
        json.dump(ev, f, indent=1, default=repr)
    os.replace(tmp, os.path.join(d, '%s.json' % prop))


NOT_REPLAYABLE = ('C19',)      # real threads: the schedule is not part of the case


def _reproduces(prop, path):
    if prop in NOT_REPLAYABLE or os.environ.get('VERIF_NO_REVERIFY'):
        return True
    import subprocess
    chk = os.path.join(env.VERIF, 'check')
    for _ in range(2):
        try:
            r = subprocess.run([chk, prop, '--replay', path], capture_output=True, text=True, timeout=1800)
        except Exception:
            return True             # cannot tell: keep the violation
        if r.returncode == 1 or 'KNOWN-FINDING' in r.stdout:
            return True
        if r.returncode != 0:
            return True             # harness error while replaying: keep the violation visible
    return False


def finish(prop, level, tier, seed, stats, rule, assumptions, t0, extra=None):
    """Print KNOWN-FINDING / VIOLATION lines, write evidence, return exit code."""
    by_what = {}
    for sig, cnt in sorted(stats.known.items()):
        by_what.setdefault(stats.known_what.get(sig, sig), []).append((sig, cnt))
    for what, sigs in sorted(by_what.items()):      # one line per listed finding
        print('KNOWN-FINDING: property=%s %s [%s]' % (prop, what, '; '.join('signature=%s hit in %d cases' % sc for sc in sigs)))
    code = 0
    seen = set()
    for sig, detail, case in stats.violations:
        if sig in seen:
            continue
        seen.add(sig)
        path = write_replay(prop, sig, detail, case)
        if not _reproduces(prop, path):
            # a violation is reported with a replay file that reproduces it; one that does not (state of an earlier
            # case of the same worker process, real time, scheduling) is counted and shown, never a verdict
            stats.inconclusive.append('%s: seen once, does not reproduce from its replay file %s in a fresh process' % (sig, os.path.relpath(path, env.VERIF)))
            stats.extra['violations_not_reproduced'] += 1
            continue
        print('VIOLATION property=%s replay=%s' % (prop, os.path.relpath(path, env.VERIF)))
        print('  signature: %s' % sig)
        print('  detail: %s' % (detail if len(str(detail)) < 2000 else str(detail)[:2000] + '...'))
        code = 1
    write_evidence(prop, level, tier, seed, stats, rule, assumptions, time.time() - t0, extra)
    print('%s %s: %d cases, %d distinct non-trivial, %d violations, %.1fs' % (
        prop, tier, stats.evaluations, len(stats.nontrivial), len(stats.violations) - stats.extra.get('violations_not_reproduced', 0), time.time() - t0))
    for m in stats.inconclusive:
        print('  inconclusive: %s' % m)
    sys.stdout.flush()
    return code


def replay_file(prop, path, run_case):
    with open(path) as f:
        doc = json.load(f)
    case = doc['case']
    res = run_case(case)
    if res.violation is None:
        print('replay %s: property held' % path)
        return 0
    sig, detail = res.violation
    kf = findings.match(prop, sig)
    if kf is not None:
        print('KNOWN-FINDING: property=%s %s [signature=%s]' % (prop, kf.get('what', sig), sig))
        return 0
    print('VIOLATION property=%s replay=%s' % (prop, path))
    print('  signature: %s' % sig)
    print('  detail: %s' % (detail,))
    return 1
