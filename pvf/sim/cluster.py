"""Cluster of real SyncObj nodes on the simulated network + ghost state and
monitors evaluated after every step. Monitors only *record* violations as
(property, signature, detail); property modules decide what to report."""
import collections
import os
import shutil

from . import core
from .core import CLOCK, RNG, Net, Probe, ModelState, entry_at, log_of, fold_hash
import pysyncobj.pickle as ppickle
from pysyncobj import SyncObjConf, FAIL_REASON

DT = [0.11, 0.001, 0.3, 0.005, 1.5, 0.06, 0.11, 0.03]
SEND_COST = [0.0005, 0.002, 0.02]
FR = {0: 'SUCCESS', 1: 'QUEUE_FULL', 2: 'MISSING_LEADER', 3: 'DISCARDED', 4: 'NOT_LEADER', 5: 'LEADER_CHANGED', 6: 'REQUEST_DENIED'}

OPS = ['tick', 'deliver', 'break', 'notice', 'connect', 'submit', 'compact', 'calm', 'partition', 'heal', 'tickall', 'flush']


def default_cfg():
    return {
        'n': 3, 'rng': 1, 'send_cost': 0,
        'batch': True, 'batch_bytes': 65536, 'compact_chunk': 65536,
        'compact_min_entries': 1000, 'compact_min_time': 300.0,
        'wait_leader': True, 'queue_size': 100000, 'fallback': 30.0,
        'raft_min': 0.4, 'raft_max': 1.4, 'ae_period': 0.1,
        'n_ro': 0, 'journal': False, 'dump': False, 'dynamic': False,
        'boot': True,
    }


MACRO_OPS = ('churn', 'lagsnap', 'stalereply', 'fig8', 'staleterm', 'specsnap', 'specsnap2', 'ghostfwd')


class Sim(object):
    probe_class = Probe

    def __init__(self, cfg, workdir=None):
        core.install()
        CLOCK.reset()
        RNG.reseed(cfg.get('rng', 1))
        c = default_cfg()
        c.update(cfg)
        self.cfg = c
        self.workdir = workdir
        n = c['n']
        self.voters = ['n%d' % i for i in range(n)]
        self.ro = ['r%d' % i for i in range(c['n_ro'])]
        self.addr = dict(('n%d' % i, '10.0.0.%d:4321' % (i + 1)) for i in range(8))
        self.addr2name = dict((v, k) for k, v in self.addr.items())
        self._node_objs = {}
        self.net = Net(self)
        self.net.send_cost = SEND_COST[c['send_cost'] % len(SEND_COST)]
        self.nodes = {}                # name -> live SyncObj
        self.incarnation = collections.Counter()
        self.members = set(self.voters)          # static member set (dynamic: overridden by C10)
        self.blocked = set()           # frozenset({x,y}) pairs that cannot connect
        self.step_no = 0
        self.trace = []
        # ghost state
        self.G = {}                    # position -> (command, idx, term) first reported committed
        self.G_by = {}
        self.G_term = {}
        self.prev_commit = collections.defaultdict(lambda: 1)
        self.prev_applied = collections.defaultdict(lambda: 1)
        self.last_exec = collections.defaultdict(int)
        self.events = []
        self.all_events = 0
        self.model = ModelState()
        self.model_pos = 1
        self.model_keys = {1: self.model.key()}
        self.model_results = {}
        self.cid_positions = collections.defaultdict(set)
        self.subs = {}
        self.next_cid = 1
        self.leader_of = {}            # term -> name
        self.role_events = []
        self.terms_with_leader = set()
        self.viol = []                 # violations of target properties (stop the case)
        self.all_viol = []             # every monitor hit, any property
        self.fired = set()
        self.target = cfg.get('target')
        self.escaped = []
        self.failed_cids = {}
        self.zombies = set()
        self.term_at_stop = {}
        self.leader_before = {}
        self.inc_at_leader = {}
        self.confs = {}
        self.quiet = False
        self.heard = collections.defaultdict(dict)
        self.leader_now = {}
        self.notified = collections.defaultdict(set)
        self.isolated_long = set()
        self.rejoined_after_isolation = False
        self.cut_epoch = collections.Counter()
        self.reach_seen = {}
        self.cut_since = {}
        self.ro_terms_seen = {}
        self.ro_rejoined_after_leader_change = False
        self.ro_with_minority = False
        self.pending_old_ae = []
        self.cb_seen = 0
        self.napplied = collections.Counter()
        self.snapshot_msgs = 0
        self.unanswered_at_leader_change = False
        self.counters = collections.Counter()
        self.held = {}              # (from, to) -> step number until which deliveries in that direction are delayed
        self.idname = None
        self.on_send_hooks = []
        self.on_deliver_hooks = []
        self.after_step_hooks = []
        self.votes = collections.defaultdict(set)   # (voter, term) -> set(candidates)
        self.votes_flat = collections.defaultdict(set)
        self.vote_inc = {}
        self.max_term = collections.Counter()
        self.last_voter = None
        self.killed_after_vote = 0
        self.inflight_ae = collections.Counter()
        self.max_inflight_ae = 0
        self.commit_after_pipelining = False
        for name in self.voters:
            self.start_node(name)
        for name in self.ro:
            self.start_node(name)

    # ---------------------------------------------------------------- plumbing
    def is_ro(self, name):
        return name.startswith('r')

    def node_obj(self, name):
        o = self._node_objs.get(name)
        if o is None:
            from pysyncobj.node import TCPNode
            o = self._node_objs[name] = TCPNode(self.addr[name])
        return o

    def make_conf(self, name):
        c = self.cfg
        kw = dict(
            autoTick=False,
            appendEntriesUseBatch=c['batch'],
            appendEntriesBatchSizeBytes=c['batch_bytes'],
            logCompactionBatchSize=c['compact_chunk'],
            logCompactionMinEntries=c['compact_min_entries'],
            logCompactionMinTime=c['compact_min_time'],
            commandsWaitLeader=c['wait_leader'],
            commandsQueueSize=c['queue_size'],
            leaderFallbackTimeout=c['fallback'],
            raftMinTimeout=c['raft_min'], raftMaxTimeout=c['raft_max'],
            appendEntriesPeriod=c['ae_period'],
            connectionTimeout=max(3.5, c['raft_max']),
            dynamicMembershipChange=c['dynamic'],
            useFork=False,
            onStateChanged=lambda old, new, name=name: self.on_state_changed(name, old, new),
        )
        if self.workdir and c['journal'] and not self.is_ro(name):
            kw['journalFile'] = os.path.join(self.workdir, name + '.journal')
        if self.workdir and c['dump'] and not self.is_ro(name):
            kw['fullDumpFile'] = os.path.join(self.workdir, name + '.dump')
        return SyncObjConf(**kw)

    def cut_off(self, name):
        """True if partitions/kills leave `name` without a reachable majority of voters."""
        mem = self.member_set(name)
        reach = sum(1 for v in mem if v != name and v in self.nodes and frozenset((name, v)) not in self.blocked)
        me = 0 if self.is_ro(name) else 1
        return (reach + me) * 2 <= len(mem)

    def start_node(self, name, others=None):
        self.notified[name] = set()
        core._CURRENT['net'] = self.net
        core._CURRENT['name'] = name
        CLOCK.active = name
        if others is None:
            others = [self.addr[v] for v in self.voters if v != name]
        self_addr = None if self.is_ro(name) else self.addr[name]
        self.incarnation[name] += 1
        conf = self.make_conf(name)
        self.confs[name] = conf
        if self.quiet:
            conf.logCompactionMinEntries = 10 ** 9
            conf.logCompactionMinTime = 10.0 ** 9
        obj = self.probe_class(self_addr, others, conf, self, name)
        self.nodes[name] = obj
        if self.idname is None:
            self.idname = {}
            for k, v in obj._methodToID.items():
                if isinstance(k, str):
                    self.idname[v] = k.rsplit('_v', 1)[0]
        self.prev_commit[name] = 1          # (re)scan everything this incarnation reports committed
        self.prev_applied[name] = obj.raftLastApplied
        return obj

    def call(self, name, fn, *args):
        CLOCK.active = name
        try:
            return fn(*args)
        except Exception as e:
            import traceback
            tb = traceback.extract_tb(e.__traceback__)
            where = '%s:%d' % (os.path.basename(tb[-1].filename), tb[-1].lineno) if tb else '?'
            self.escaped.append((self.step_no, name, type(e).__name__, str(e)[:200], where))
            self.counters['escaped_exceptions'] += 1
            return None

    def on_state_changed(self, name, old, new):
        obj = self.nodes.get(name)
        term = obj.raftCurrentTerm if obj is not None else None
        if new == 2:
            now = CLOCK.t.get(name, core.EPOCH)
            for v in self.voters:
                self.heard[name][v] = now
        self.role_events.append((self.step_no, name, old, new, term, set(self.member_set(name)) if name in self.nodes else set()))

    def on_apply(self, obj, method, cid):
        name = obj._simname
        if self.nodes.get(name) is not obj:
            return
        self.events.append((name, obj.raftLastApplied + 1, cid, method))

    def on_send(self, x, y, gen, message):
        if isinstance(message, dict):
            t = message.get('type')
            if self.is_ro(x) and t in ('request_vote', 'response_vote', 'append_entries'):
                self.V('C18', 'readonly-node-sent-%s' % t, 'read-only node %s sent %s to %s' % (x, t, y))
            if t == 'response_vote':
                self.votes[(x, self.incarnation[x], message['term'])].add(y)
                self.votes_flat_add(x, message['term'], y)
            elif t == 'append_entries' and 'prevLogIdx' in message:
                self.inflight_ae[(x, y)] += 1
                if self.inflight_ae[(x, y)] > self.max_inflight_ae:
                    self.max_inflight_ae = self.inflight_ae[(x, y)]
        for h in self.on_send_hooks:
            h(x, y, gen, message)

    def votes_flat_add(self, voter, term, cand):
        self.last_voter = voter
        k = (voter, term)
        self.votes_flat[k].add(cand)
        if len(self.votes_flat[k]) > 1:
            restarted = self.vote_inc.get(k) != self.incarnation[voter]
            self.V('C07' if restarted else 'C03', 'second-vote-in-term' + (':restarted-between' if restarted else ''),
                   '%s sent response_vote for term %d to %s after having voted for %s in the same term%s' % (
                       voter, term, cand, sorted(self.votes_flat[k] - {cand}), ' (restarted in between)' if restarted else ''))
        self.vote_inc.setdefault(k, self.incarnation[voter])
        if term < self.max_term[voter]:
            self.V('C07', 'vote-for-older-term', '%s granted a vote for term %d although it had acknowledged term %d before' % (voter, term, self.max_term[voter]))

    def on_deliver(self, frm, to, gen, message):
        if not self.is_ro(frm):
            self.heard[to][frm] = CLOCK.t.get(to, core.EPOCH)
        if isinstance(message, dict) and message.get('type') == 'next_node_idx':
            k = (to, frm)
            if self.inflight_ae[k] > 0:
                self.inflight_ae[k] = 0
        if isinstance(message, dict) and message.get('serialized') is not None:
            self.snapshot_msgs += 1
        if isinstance(message, dict) and message.get('type') == 'append_entries' and not self.is_ro(to):
            if message['term'] < self.max_term[to]:
                self.pending_old_ae.append((to, frm, message['term'], self.max_term[to]))
        for h in self.on_deliver_hooks:
            h(frm, to, gen, message)

    def quiet_config(self):
        """Quiet phase: no further automatic compactions. With the generated extreme settings (compaction every
        50 ms, 1-byte snapshot chunks) a leader would restart every snapshot transfer before it can finish, and a
        snapshot install skips callbacks - artefacts of the configuration, not of the history being checked."""
        self.quiet = True
        self.held.clear()
        for conf in self.confs.values():
            conf.logCompactionMinEntries = 10 ** 9
            conf.logCompactionMinTime = 10.0 ** 9

    def stop_node(self, name, clean=True):
        """Process `name` goes away (clean shutdown or kill); its connections die."""
        obj = self.nodes.pop(name, None)
        if obj is None:
            return False
        # durable term (C07): a journaled process that stops between two steps has stored every term it adopted
        # (a process killed inside a step - zombie - may hold a term in memory whose store was the killed write)
        self.term_at_stop.pop(name, None)
        if self.workdir and self.cfg.get('journal') and not self.is_ro(name) and name not in self.zombies:
            self.term_at_stop[name] = obj.raftCurrentTerm
        self.net.endpoint_gone(name)
        if clean:
            CLOCK.active = name
            try:
                obj._doDestroy()
            except Exception:
                pass
        self.counters['stops'] += 1
        return True

    def restart_node(self, name, others=None):
        if name in self.nodes:
            return False
        self.start_node(name, others)
        self.counters['restarts'] += 1
        t0 = self.term_at_stop.pop(name, None)
        if t0 is not None and self.nodes[name].raftCurrentTerm < t0:
            self.V('C07', 'term-forgotten-by-restart', '%s held term %d when it was stopped and starts again with term %d' % (name, t0, self.nodes[name].raftCurrentTerm))
        return True

    # ---------------------------------------------------------------- steps
    def live(self):
        return [n for n in self.voters + self.ro if n in self.nodes]

    def pick(self, seq, i):
        return seq[i % len(seq)] if seq else None

    def do_step(self, step):
        """step = [op, a, b, c] with small ints; returns the resolved (concrete) form."""
        op = OPS[step[0] % len(OPS)] if isinstance(step[0], int) else step[0]
        a, b, c = (list(step[1:]) + [0, 0, 0])[:3]
        self.step_no += 1
        try:
            r = getattr(self, 'op_' + op)(a, b, c)
        except KeyError as e:
            # a macro step lost one of its actors on the way (a node whose removal committed is shut down by the
            # membership harness, a node killed inside a step): the rest of the macro step is skipped
            if op in MACRO_OPS and e.args and e.args[0] in self.addr and e.args[0] not in self.nodes:
                self.counters['macro_actor_gone'] += 1
                self.blocked = set()
                r = (op, 'actor-gone', e.args[0])
            else:
                raise
        self.counters['op_' + op] += 1
        if r is False:
            self.counters['noop_' + op] += 1
        self.check()
        return r

    def tick_node(self, name, dt):
        CLOCK.advance(name, dt)
        t_start = CLOCK.t.get(name, core.EPOCH)
        obj = self.nodes[name]
        self.call(name, obj._onTick, 0.0)
        self.after_tick(name, obj, t_start)

    def after_tick(self, name, obj, t_start):
        # C20: a node that still reports leader after a tick must have heard from a majority within the fallback timeout
        if self.is_ro(name):
            return
        if obj._isLeader():
            fb = self.cfg['fallback']
            mem = self.member_set(name)
            h = self.heard[name]
            cnt = 1 + sum(1 for v in mem if v != name and h.get(v, -1e9) > t_start - fb)
            if cnt * 2 <= len(mem):
                self.V('C20', 'leader-without-recent-majority',
                       '%s still reports leader after a tick at its time %.4f although it heard from only %d of %d voters (self included) within leaderFallbackTimeout=%.2f: last heard %r' % (
                           name, t_start, cnt, len(mem), fb, dict((v, round(t_start - h[v], 3)) for v in mem if v in h)))
            silent = [v for v in mem if v != name and h.get(v, -1e9) <= t_start - fb]
            if len(silent) * 2 >= len(mem) - (len(mem) % 2 == 0):
                pass
        self.leader_now[name] = obj._isLeader()

    def op_tick(self, a, b, c):
        name = self.pick(self.live(), a)
        if name is None:
            return False
        dt = DT[b % len(DT)]
        self.tick_node(name, dt)
        return (name, dt)

    def _deliverables(self):
        out = []
        for g in self.net.gens:
            for to in (g.b, g.a):
                if self.net.deliverable(g, to):
                    h = self.held.get((g.peer(to), to))
                    if h is not None:
                        if h > self.step_no:
                            continue            # this direction is slow right now (op_hold)
                        del self.held[(g.peer(to), to)]
                    out.append((g, to))
        return out

    def op_hold(self, a, b, c):
        """Everything travelling from x to y is delayed for the next d steps (the reverse direction and all other
        links keep working): replies and requests arrive late, possibly in a later term."""
        names = self.live()
        if len(names) < 2:
            return False
        x = names[a % len(names)]
        others = [n for n in names if n != x]
        y = others[b % len(others)]
        d = [5, 15, 40, 100][c % 4]
        self.held[(x, y)] = self.step_no + d
        self.counters['holds'] += 1
        return (x, y, d)

    def op_tickall(self, a, b, c):
        names = self.live()
        if not names:
            return False
        k = a % len(names)
        dt = DT[b % len(DT)]
        for name in names[k:] + names[:k]:
            self.tick_node(name, dt)
        return (dt,)

    def op_flush(self, a, b, c):
        if not self._deliverables():
            return False
        self.drain(passes=1 + a % 2)
        return ()

    def op_deliver(self, a, b, c):
        cands = self._deliverables()
        if not cands:
            return self.op_tick(a, b, c)
        g, to = self.pick(cands, a)
        n = [1, 1, 2, 3, 10, 1000][c % 6]
        k = 0
        while k < n and self.net.deliver(g, to):
            k += 1
        return (g.id, to, k)

    def op_break(self, a, b, c):
        cands = [g for g in self.net.gens if g.alive]
        if not cands:
            return False
        g = self.pick(cands, a)
        keep = lambda q, v: [0, 1, len(q), len(q) // 2][v % 4]
        self.net.break_(g, keep(g.q[g.a], b), keep(g.q[g.b], c))
        return (g.id,)

    def _noticeables(self):
        return [(g, x) for g in self.net.gens for x in (g.a, g.b) if self.net.noticeable(g, x)]

    def op_notice(self, a, b, c):
        cands = self._noticeables()
        if not cands:
            return False
        g, x = self.pick(cands, a)
        self.net.notice(g, x)
        return (g.id, x)

    def _connectables(self):
        out = []
        names = self.live()
        for x in names:
            for y in self.voters:
                if x != y and frozenset((x, y)) not in self.blocked and self.net.connectable(x, y):
                    out.append((x, y))
        return out

    def op_connect(self, a, b, c):
        cands = self._connectables()
        if not cands:
            return False
        x, y = self.pick(cands, a)
        self.net.connect(x, y)
        return (x, y)

    def payload(self, b, c):
        kind = b % 4
        if kind == 0:
            return ('append', b'')
        if kind == 1:
            return ('append', bytes([c % 256]) * (c % 40))
        if kind == 2:
            return ('put', c % 5, c)
        return ('pop',)

    def op_submit(self, a, b, c):
        name = self.pick(self.live(), a)
        if name is None:
            return False
        return self.submit(name, self.payload(b, c))

    def submit(self, name, what):
        obj = self.nodes[name]
        cid = self.next_cid
        self.next_cid += 1
        sub = {'cid': cid, 'node': name, 'inc': self.incarnation[name], 'step': self.step_no, 'what': what[0], 'cbs': [],
               'role': 'leader' if obj._isLeader() else ('ro' if self.is_ro(name) else 'follower'),
               'cut_epoch': self.cut_epoch[name] if self.cut_off(name) else None}
        self.subs[cid] = sub

        def cb(res, err, sub=sub):
            sub['cbs'].append((res, err, self.step_no))
        method = what[0]
        args = (cid,) + tuple(what[1:])
        self.call(name, lambda: getattr(obj, method)(*args, callback=cb))
        self.counters['submitted'] += 1
        return (name, cid, method)

    def op_compact(self, a, b, c):
        name = self.pick(self.live(), a)
        if name is None:
            return False
        self.nodes[name].forceLogCompaction()
        return (name,)

    def heal_links(self):
        for g, x in self._noticeables():
            self.net.notice(g, x)
        for x, y in self._connectables():
            self.net.connect(x, y)

    def drain(self, passes=4):
        for _ in range(passes):
            cands = self._deliverables()
            if not cands:
                break
            for g, to in cands:
                while self.net.deliver(g, to):
                    pass

    def calm_round(self, dt=0.02):
        self.heal_links()
        for name in self.live():
            self.tick_node(name, dt)
        self.drain()
        # monitors after every round: a commit index has to be seen while the entry is still in that node's log
        self.check(light=True)

    def op_calm(self, a, b, c):
        rounds = [1, 3, 10, 40][a % 4]
        for _ in range(rounds):
            self.calm_round()
            self.check(light=True)
            if self.viol:
                break
        return (rounds,)

    def op_partition(self, a, b, c):
        """a = bitmask of voters on side A; connections across are broken and blocked."""
        names = self.voters + self.ro
        side = set(n for i, n in enumerate(names) if (a >> i) & 1)
        if not side or len(side) == len(names):
            return False
        self.blocked = set()
        for x in names:
            for y in names:
                if x < y and ((x in side) != (y in side)):
                    self.blocked.add(frozenset((x, y)))
        for g in self.net.gens:
            if g.alive and frozenset((g.a, g.b)) in self.blocked:
                keep = lambda q, v: [0, len(q)][v % 2]
                self.net.break_(g, keep(g.q[g.a], b), keep(g.q[g.b], c))
        return (sorted(side),)

    def set_partition(self, side, drop=True):
        names = self.voters + self.ro
        side = set(side)
        self.blocked = set()
        for x in names:
            for y in names:
                if x < y and ((x in side) != (y in side)):
                    self.blocked.add(frozenset((x, y)))
        for g in self.net.gens:
            if g.alive and frozenset((g.a, g.b)) in self.blocked:
                self.net.break_(g, 0 if drop else len(g.q[g.a]), 0 if drop else len(g.q[g.b]))

    def rounds_until(self, cond, limit):
        for _ in range(limit):
            if cond():
                return True
            self.calm_round()
            self.check(light=True)
            if self.viol:
                return False
        return cond()

    def op_churn(self, a, b, c):
        """Leader churn with divergent log tails (parameterised macro step): the leader L is cut off (alone or with
        one follower F) and keeps accepting x commands; the rest elects L2 and commits y commands; then the cluster
        is re-partitioned in one of four ways. Reaches deposed-leader / stale-acknowledgement / old-term-entry states
        that single random steps reach only rarely."""
        voters = [v for v in self.voters if v in self.nodes]
        n = len(voters)
        if n < 3:
            return False
        leaders = lambda grp: [v for v in grp if v in self.nodes and self.nodes[v]._isLeader()]
        if not leaders(voters):
            self.blocked = set()
            if not self.rounds_until(lambda: len(leaders(voters)) == 1, 200):
                return False
        L = leaders(voters)[0]
        others = [v for v in voters if v != L]
        side = {L}
        F = None
        if (b & 1) and (n - 2) * 2 > n:
            F = others[a % len(others)]
            side.add(F)
        rest = [v for v in voters if v not in side]
        self.set_partition(side)
        x = 1 + c % 3
        for _ in range(x):
            self.submit(L, self.payload(1, self.next_cid))
            self.tick_node(L, 0.11)
            self.drain(passes=2)
            self.check(light=True)
        if not self.rounds_until(lambda: len(leaders(rest)) == 1, 250) or self.viol:
            return (L, F, 'no-new-leader')
        L2 = leaders(rest)[0]
        y = (c // 3) % 3
        for _ in range(y):
            self.submit(L2, self.payload(1, self.next_cid))
            for _ in range(3):
                self.calm_round()
                self.check(light=True)      # every round: a commit index must be observed while the entry is still in the log
        variant = (b >> 1) % 4
        if variant == 0:
            self.blocked = set()
        elif variant == 1:
            self.set_partition({L2})
        elif variant == 2:
            cand = [v for v in rest if v != L2]
            V = cand[a % len(cand)] if cand else L2
            self.set_partition(side | {V})
        else:
            if F is not None:
                self.set_partition({F})
            else:
                self.blocked = set()
        for _ in range(30):
            self.calm_round()
            self.check(light=True)
            if self.viol:
                break
        self.counters['churn_completed'] += 1
        return (L, F, L2, x, y, variant)

    def op_lagsnap(self, a, b, c):
        """Catch-up macro step: one node (voter or observer) is cut off while the rest commits x commands and
        compacts; then it is reconnected and catches up - by snapshot when the entries are gone - with deliveries
        in small portions, optionally with a connection break or a newer snapshot in the middle of the transfer."""
        voters = [v for v in self.voters if v in self.nodes]
        if len(voters) < 2:
            return False
        leaders = lambda: [v for v in self.voters if v in self.nodes and self.nodes[v]._isLeader()]
        if len(leaders()) != 1:
            self.blocked = set()
            if not self.rounds_until(lambda: len(leaders()) == 1, 200):
                return False
        L = leaders()[0]
        cands = [n for n in self.live() if n != L]
        if not cands:
            return False
        F = cands[a % len(cands)]
        if (len(voters) - (1 if F in voters else 0)) * 2 <= len(self.voters):
            return False                    # the rest could not commit anything
        self.set_partition({F})
        x = 2 + b % 4
        for _ in range(x):
            if L in self.nodes:
                self.submit(L, self.payload(1, self.next_cid))
            for _ in range(2):
                self.calm_round()
                self.check(light=True)
        if self.viol:
            return (L, F, 'stopped')
        no_force = getattr(self, 'no_force_compaction', False)
        for n in self.live():
            if n != F and (n == L or (c >> 2) & 1) and not no_force:
                self.nodes[n].forceLogCompaction()
        for _ in range(3):
            for n in self.live():
                if n != F:
                    self.tick_node(n, 0.02)
            self.check(light=True)      # between ticks: commits must be seen while the entries are still in the log
        self.blocked = set()
        mode = c % 4
        portion = [1, 2, 5, 1000][(b >> 2) % 4]
        for r in range(60):
            self.heal_links()
            for n in self.live():
                self.tick_node(n, 0.02)
            for g, to in self._deliverables():
                for _ in range(portion):
                    if not self.net.deliver(g, to):
                        break
            if r == 2 + a % 3:
                if mode == 1:
                    for g in self.net.gens:
                        if g.alive and F in (g.a, g.b):
                            self.net.break_(g, 0, 0)
                            break
                elif mode == 2:
                    ls = leaders()
                    if ls:
                        self.submit(ls[0], self.payload(1, self.next_cid))
                        if not no_force:
                            self.nodes[ls[0]].forceLogCompaction()
                elif mode == 3 and F in self.nodes and F in self.voters:
                    # the node that is catching up loses patience and campaigns: its term rises, what the leader
                    # sends in the old term is ignored, the leader has to be elected again
                    self.tick_node(F, 3.0)
            self.check(light=True)
            if self.viol:
                break
        self.counters['lagsnap_completed'] += 1
        return (L, F, x, mode, portion)

    def op_stalereply(self, a, b, c):
        """Macro step (5 voters): leader A of term T writes x entries that reach only B, whose replies are delayed;
        the other three elect a leader and commit; A follows them, is elected again in a later term and appends;
        one other voter acknowledges; then B's replies from term T arrive. (B stays cut off from the three.)"""
        voters = [v for v in self.voters if v in self.nodes]
        if len(voters) != 5 or len(self.voters) != 5:
            return False
        leaders = lambda grp: [v for v in grp if v in self.nodes and self.nodes[v]._isLeader()]
        self.blocked = set()
        self.held.clear()
        if not self.rounds_until(lambda: len(leaders(voters)) == 1, 300) or self.viol:
            return False
        for _ in range(5):
            self.calm_round()
        if len(leaders(voters)) != 1:
            return False
        A = leaders(voters)[0]
        rest = [v for v in voters if v != A]
        B = rest[a % 4]
        three = [v for v in rest if v != B]
        names = self.voters + self.ro

        def allow(pairs):
            self.blocked = set(frozenset((x, y)) for x in names for y in names if x < y and frozenset((x, y)) not in pairs)
            for g in self.net.gens:
                if g.alive and frozenset((g.a, g.b)) in self.blocked:
                    self.net.break_(g, 0, 0)
            for g, x in self._noticeables():
                self.net.notice(g, x)

        def clique(grp):
            return set(frozenset((x, y)) for x in grp for y in grp if x != y)

        def link(x, y):
            for g in self.net.gens:
                if g.alive and set((g.a, g.b)) == set((x, y)):
                    return g

        def deliver(frm, to):
            g = link(frm, to)
            while g is not None and self.net.deliver(g, to):
                pass

        def run(grp, rounds, until=None):
            for _ in range(rounds):
                for x, y in self._connectables():
                    if x in grp and y in grp:
                        self.net.connect(x, y)
                for n in grp:
                    if n in self.nodes:
                        self.tick_node(n, 0.02)
                for g, to in self._deliverables():
                    if to in grp and g.peer(to) in grp:
                        while self.net.deliver(g, to):
                            pass
                self.check(light=True)
                if self.viol or (until and until()):
                    break
        allow(clique(three) | {frozenset((A, B))})
        if link(A, B) is None:
            return (A, B, 'no-link')
        x = 1 + b % 3
        for _ in range(x):
            self.submit(A, self.payload(1, self.next_cid))
            self.tick_node(A, 0.02)
            deliver(A, B)
            self.check(light=True)
        run(set(three), 800, lambda: len(leaders(three)) == 1)
        if self.viol or len(leaders(three)) != 1:
            return (A, B, 'no-second-leader')
        L2 = leaders(three)[0]
        if (c >> 2) & 1:
            self.submit(L2, self.payload(1, self.next_cid))
        run(set(three), 10)
        allow(clique(set(three) | {A}) | {frozenset((A, B))})
        run(set(three) | {A}, 30)
        others = [v for v in three if v != L2]
        g3 = set(others) | {A}
        allow(clique(g3) | {frozenset((A, B))})
        for _ in range(800):
            if self.viol or A not in self.nodes or self.nodes[A]._isLeader():
                break
            self.tick_node(A, 0.02)
            for o in others:
                self.tick_node(o, 0.0001)
            for g, to in self._deliverables():
                if to in g3 and g.peer(to) in g3:
                    while self.net.deliver(g, to):
                        pass
            self.check(light=True)
        if self.viol or not self.nodes[A]._isLeader():
            return (A, B, L2, 'not-reelected')
        for _ in range(1 + c % 2):
            self.submit(A, self.payload(1, self.next_cid))
        self.tick_node(A, 0.02)
        D = others[c % 2]
        deliver(A, D)
        deliver(D, A)
        self.check(light=True)
        stale = len(link(A, B).q[A]) if link(A, B) is not None else 0
        deliver(B, A)
        self.tick_node(A, 0.02)
        self.check(light=True)
        self.counters['stalereply_completed'] += 1
        self.counters['stale_replies_delivered'] += stale
        self.blocked = set()
        return (A, B, L2, x, stale)

    def op_fig8(self, a, b, c):
        """Macro step (3 voters), the schedule of Figure 8 of the Raft paper: leader A accepts x alone; B is elected by
        C and cut off before its no-op leaves, accepts y alone; A is elected again by C, C stores x but the link
        breaks before A's new no-op arrives (a leader that commits x now by counting replicas is wrong); then B is
        elected by C and overwrites x."""
        voters = [v for v in self.voters if v in self.nodes]
        if len(voters) != 3 or len(self.voters) != 3:
            return False
        leaders = lambda grp: [v for v in grp if v in self.nodes and self.nodes[v]._isLeader()]
        self.blocked = set()
        self.held.clear()
        if not self.rounds_until(lambda: len(leaders(voters)) == 1, 300) or self.viol:
            return False
        for _ in range(5):
            self.calm_round()
        if len(leaders(voters)) != 1 or self.viol:
            return False
        A = leaders(voters)[0]
        others = [v for v in voters if v != A]
        B, C = (others[0], others[1]) if a % 2 == 0 else (others[1], others[0])

        def link(x, y):
            for g in self.net.gens:
                if g.alive and set((g.a, g.b)) == set((x, y)):
                    return g

        def elect(X, Y, limit=3000):
            # X and Y alone: X times out first; messages travel one at a time; stop the moment X is leader of a new term
            t0 = max(self.nodes[X].raftCurrentTerm, self.nodes[Y].raftCurrentTerm)
            won = lambda: self.nodes[X]._isLeader() and self.nodes[X].raftCurrentTerm > t0
            if self.nodes[X]._isLeader():
                # a cut-off leader of an old term: let its leaderFallbackTimeout pass
                self.tick_node(X, float(self.cfg.get('fallback', 2.0)) + 0.2)
            for _ in range(limit):
                if self.viol or X not in self.nodes or Y not in self.nodes:
                    return False
                if won():
                    return True
                for g, x in self._noticeables():
                    if x in (X, Y):
                        self.net.notice(g, x)
                for (p, q) in self._connectables():
                    if set((p, q)) == set((X, Y)):
                        self.net.connect(p, q)
                self.tick_node(X, 0.02)
                if won():
                    return True
                self.tick_node(Y, 0.0001)
                g = link(X, Y)
                while g is not None and (self.net.deliver(g, Y) or self.net.deliver(g, X)):
                    if won():
                        return True
                self.check(light=True)
            return False
        # 1. A accepts x alone
        self.set_partition({A})
        sx = self.submit(A, self.payload(1, self.next_cid))
        self.tick_node(A, 0.02)
        self.check(light=True)
        xlast = core.log_of(self.nodes[A])[-1]
        # 2. B elected by C, cut off before its no-op leaves, accepts y alone
        if not elect(B, C):
            self.blocked = set()
            return (A, B, C, 'no-B')
        self.set_partition({B})
        self.submit(B, self.payload(1, self.next_cid))
        self.tick_node(B, 0.02)
        self.check(light=True)
        # 3. A elected again by C
        if not elect(A, C):
            self.blocked = set()
            return (A, B, C, 'no-A-again')
        reached = False
        for _ in range(400):
            if self.viol or reached:
                break
            self.tick_node(A, 0.02)
            g = link(A, C)
            if g is None:
                for g2, x in self._noticeables():
                    if x in (A, C):
                        self.net.notice(g2, x)
                for (p, q) in self._connectables():
                    if set((p, q)) == set((A, C)):
                        self.net.connect(p, q)
                continue
            while self.net.deliver(g, C) or self.net.deliver(g, A):
                logC = core.log_of(self.nodes[C])
                e = core.entry_at(self.nodes[C], xlast[1])
                if e is not None and e[2] == xlast[2] and logC[-1][1] == xlast[1]:
                    while self.net.deliver(g, A):      # C's acknowledgement of x reaches A
                        pass
                    self.net.break_(g, 0, 0)            # A's new no-op never reaches C
                    reached = True
                    break
            self.check(light=True)
        # 4. the moment of truth for the commit rule
        self.tick_node(A, 0.02)
        self.check(light=True)
        # 5. A cut off, B (or C) takes over
        self.set_partition({A})
        rest = [B, C]
        if self.rounds_until(lambda: len(leaders(rest)) == 1 and self.nodes[leaders(rest)[0]].raftCurrentTerm > self.nodes[A].raftCurrentTerm, 600) and not self.viol:
            self.submit(leaders(rest)[0], self.payload(1, self.next_cid))
            for _ in range(10):
                self.calm_round()
        # 6. heal
        self.blocked = set()
        for _ in range(30):
            self.calm_round()
            if self.viol:
                break
        self.counters['fig8_completed'] += 1
        if reached:
            self.counters['fig8_state_reached'] += 1
        return (A, B, C, reached)

    def op_staleterm(self, a, b, c):
        """Macro step for journaled nodes: leader L1 is cut off; the rest elects L2 and a follower F of L2 acknowledges
        the new term; F is killed and restarted and then hears only from L1 (still leader or campaigning in older
        terms) for a while; then everything heals."""
        voters = [v for v in self.voters if v in self.nodes]
        if len(voters) < 3:
            return False
        leaders = lambda grp: [v for v in grp if v in self.nodes and self.nodes[v]._isLeader()]
        if len(leaders(voters)) != 1:
            self.blocked = set()
            if not self.rounds_until(lambda: len(leaders(voters)) == 1, 200):
                return False
        L1 = leaders(voters)[0]
        rest = [v for v in voters if v != L1]
        if len(rest) * 2 <= len(self.voters):
            return False
        F = None
        if (len(rest) - 1) * 2 > len(self.voters) and b % 2 == 0:
            # F sits out the election (cut off alone) and learns the new term from the new leader, not by voting
            F = rest[a % len(rest)]
            rest = [v for v in rest if v != F]
            names = self.voters + self.ro
            self.blocked = set(frozenset((x, y)) for x in names for y in names if x < y and not (x in rest and y in rest))
            for g in self.net.gens:
                if g.alive and frozenset((g.a, g.b)) in self.blocked:
                    self.net.break_(g, 0, 0)
        else:
            self.set_partition({L1})
        if not self.rounds_until(lambda: len(leaders(rest)) == 1, 300) or self.viol:
            return (L1, 'no-second-leader')
        L2 = leaders(rest)[0]
        if F is not None:
            self.set_partition({L1})        # F joins the majority side
        self.submit(L2, self.payload(1, self.next_cid))
        for _ in range(5):
            self.calm_round()
        if F is None:
            cands = [v for v in rest if v != L2 and v in self.nodes]
            if not cands or self.viol:
                return (L1, L2, 'no-follower')
            F = cands[a % len(cands)]
        if F not in self.nodes or L1 not in self.nodes:
            return (L1, L2, 'gone')
        t_before = self.nodes[F].raftCurrentTerm
        self.check(light=True)
        kill = getattr(self, 'do_kill', None)
        if kill is not None:
            kill(F, 'staleterm')
        else:
            self.stop_node(F, clean=False)
        if hasattr(self, 'pending_restart_check'):
            self.op_restart(self.dead_voters().index(F), 0, 0)
        else:
            self.restart_node(F)
        if F not in self.nodes:
            return (L1, L2, F, 'restart-failed')
        self.set_partition({L1, F})
        for _ in range(20 * (1 + c % 3)):
            self.calm_round()
            if self.viol:
                break
        self.blocked = set()
        for _ in range(20):
            self.calm_round()
            if self.viol:
                break
        self.counters['staleterm_completed'] += 1
        return (L1, L2, F, t_before)

    def op_heal(self, a, b, c):
        if not self.blocked and not self.held:
            return False
        self.blocked = set()
        self.held.clear()
        return ()

    def op_rojoin(self, a, b, c):
        cands = [n for n in self.ro if n not in self.nodes]
        if not cands:
            return False
        name = self.pick(cands, a)
        self.start_node(name)
        self.counters['ro_joins'] += 1
        if len(self.terms_with_leader) > self.ro_terms_seen.get(name, 0) and name in self.ro_terms_seen:
            self.ro_rejoined_after_leader_change = True
        return (name,)

    def op_roleave(self, a, b, c):
        cands = [n for n in self.ro if n in self.nodes]
        if not cands:
            return False
        name = self.pick(cands, a)
        self.ro_terms_seen[name] = len(self.terms_with_leader)
        self.stop_node(name, clean=True)
        return (name,)

    def dead_voters(self):
        return [n for n in self.voters if n not in self.nodes]

    def op_kill(self, a, b, c):
        cands = [n for n in self.voters if n in self.nodes]
        if not cands:
            return False
        name = self.pick(cands, a)
        self.stop_node(name, clean=False)
        return (name,)

    def op_killvoter(self, a, b, c):
        name = self.last_voter
        if name is None or name not in self.nodes:
            return self.op_kill(a, b, c)
        self.stop_node(name, clean=False)
        self.killed_after_vote += 1
        self.last_voter = None
        return (name,)

    def op_restart(self, a, b, c):
        cands = self.dead_voters()
        if not cands:
            return False
        name = self.pick(cands, a)
        self.restart_node(name)
        return (name,)

    # ---------------------------------------------------------------- monitors
    def V(self, prop, sig, detail):
        if (prop, sig) in self.fired:
            return
        self.fired.add((prop, sig))
        rec = (prop, sig, 'step %d: %s' % (self.step_no, detail))
        self.all_viol.append(rec)
        if self.target is None or prop in self.target:
            self.viol.append(rec)

    def decode(self, cmd):
        if len(cmd) == 0 or cmd[0] != 0:
            return None
        c = ppickle.loads(cmd[1:])
        if isinstance(c, tuple):
            fid, args = c[0], c[1]
        else:
            fid, args = c, ()
        return (self.idname.get(fid, '?%r' % fid), tuple(args))

    def holds(self, v, p, e):
        obj = self.nodes.get(v)
        if obj is None:
            return False
        ent = entry_at(obj, p)
        if ent is not None:
            return ent[1] == e[1] and ent[2] == e[2]
        log = log_of(obj)
        return len(log) > 0 and log[0][1] > p and obj.raftLastApplied >= p

    def member_set(self, committer):
        return self.members

    def majority_applies(self, name, p):
        return True

    def majority_alt(self, name, p, e):
        return False

    def extend_model(self, upto):
        while self.model_pos < upto:
            p = self.model_pos + 1
            g = self.G.get(p)
            if g is None:
                return False
            d = self.decode(g[0])
            if d is not None and d[0] in ('append', 'put', 'pop'):
                self.model_results[p] = self.model.apply(d[0], d[1])
                cid = d[1][0]
                self.cid_positions[cid].add(p)
                if len(self.cid_positions[cid]) > 1:
                    self.V('C02', 'command-in-sequence-twice', 'command cid %d occupies positions %r of the common sequence' % (cid, sorted(self.cid_positions[cid])))
                if cid in self.failed_cids:
                    self.V('C02', 'applied-after-definite-failure:%s' % self.failed_cids[cid],
                           'command cid %d was reported %s to its submitter but is committed at position %d' % (cid, self.failed_cids[cid], p))
            self.model_pos = p
            self.model_keys[p] = self.model.key()
        return True

    def scan_commit(self, name, obj, advanced):
        """Record what `name` reports committed (G: first report per position)."""
        c = obj.raftCommitIndex
        prev = self.prev_commit[name]
        if c < prev:
            self.V('C04', 'commit-index-decreased', '%s commit index %d -> %d' % (name, prev, c))
        for p in range(prev + 1, c + 1):
            e = entry_at(obj, p)
            if e is None:
                continue
            g = self.G.get(p)
            if g is None:
                self.G[p] = e
                self.G_by[p] = (name, self.step_no)
                self.G_term[p] = obj.raftCurrentTerm        # term in which the position was (first reported) committed
            elif g != e:
                self.V('C04', 'committed-entry-differs',
                       '%s reports position %d committed holding (term %d, %r) but %s reported (term %d, %r) at step %d' % (
                           name, p, e[2], self.decode(e[0]), self.G_by[p][0], g[2], self.decode(g[0]), self.G_by[p][1]))
            advanced.append((name, p))
        if c > prev:
            self.prev_commit[name] = c
            if self.max_inflight_ae >= 2:
                self.commit_after_pipelining = True
            # A leader decides a commit by counting replicas only for an entry of its own term (earlier entries are
            # committed indirectly): an old-term entry on a majority can still be lacked by a later leader (Raft fig. 8).
            if obj._isLeader() and prev >= 1 and self.leader_before.get(name):
                top = entry_at(obj, c)
                if top is not None and top[2] != obj.raftCurrentTerm:
                    self.V('C04', 'leader-committed-by-counting-old-term-entry',
                           'leader %s of term %d advanced its commit index %d -> %d where the newest committed entry has term %d' % (
                               name, obj.raftCurrentTerm, prev, c, top[2]))

    def check(self, light=False):
        for (to, frm, t, mx) in self.pending_old_ae:
            obj = self.nodes.get(to)
            if obj is not None and obj._getLeader() == self.node_obj(frm) and obj.raftCurrentTerm < mx:
                self.V('C07', 'follows-leader-of-older-term', '%s follows %s as leader of term %d although it had acknowledged term %d before' % (to, frm, t, mx))
        self.pending_old_ae = []
        for name in self.live():
            obj = self.nodes[name]
            t = obj.raftCurrentTerm
            if t > self.max_term[name]:
                self.max_term[name] = t
            # C20 bookkeeping: isolation episodes, has-quorum indicator
            if self.ro and obj._isLeader() and self.cut_off(name) and any(self.is_ro(y) for y in self.net.view.get(name, {})):
                self.ro_with_minority = True
            # a cut-off episode ends when the set of voters the node can reach changes: a leader that is never connected
            # to a majority at one time can still collect a majority of acknowledgements from changing minorities
            mem_ = self.member_set(name)
            reach_ = frozenset(v for v in mem_ if v != name and v in self.nodes and frozenset((name, v)) not in self.blocked)
            if self.reach_seen.get(name) != reach_:
                self.reach_seen[name] = reach_
                self.cut_epoch[name] += 1
            if self.cut_off(name):
                now = CLOCK.t.get(name, core.EPOCH)
                if name not in self.cut_since:
                    self.cut_since[name] = (now, obj._isLeader())
                elif self.cut_since[name][1] and now - self.cut_since[name][0] > self.cfg['fallback']:
                    self.isolated_long.add(name)
            else:
                self.cut_epoch[name] += 1
                if self.cut_since.pop(name, None) is not None and name in self.isolated_long:
                    self.rejoined_after_isolation = True
            known = set(self.addr2name.get(n.address) for n in obj.otherNodes)
            conn = len(self.notified[name] & known)
            total = len(known)
            if not self.is_ro(name):
                conn += 1
                total += 1
            want = conn * 2 > total
            if bool(obj.hasQuorum) != want:
                self.V('C20', 'hasQuorum-wrong', '%s.hasQuorum is %r but it was told %d of the %d voters it knows are connected (self included)' % (name, obj.hasQuorum, conn, total))
        advanced = []
        for name in self.live():
            self.scan_commit(name, self.nodes[name], advanced)
        # majority at the step of the advance
        self.advanced_now = advanced
        for name, p in advanced:
            e = self.G.get(p)
            if e is None:
                continue
            if not self.majority_applies(name, p):
                continue
            mem = self.member_set(name)
            cnt = sum(1 for v in mem if self.holds(v, p, e))
            if cnt * 2 <= len(mem) and not self.majority_alt(name, p, e):
                who = dict((v, (entry_at(self.nodes[v], p) or ('-', None, None))[1:] if v in self.nodes else 'down') for v in sorted(mem))
                self.V('C04', 'commit-without-majority',
                       '%s advanced its commit index over position %d (term %d) but only %d of %d voters store it: %r' % (
                           name, p, e[2], cnt, len(mem), who))
                break
        # committed entries stay on a majority (what makes 'no later leader can lack it' true)
        if self.G and ('C04', 'committed-entry-left-majority') not in self.fired:
            self.check_committed_stay()
        if ('C04', 'match-index-not-backed-by-follower') not in self.fired:
            self.check_match_index()
        # applied index, apply events
        for name in self.live():
            obj = self.nodes[name]
            a = obj.raftLastApplied
            if a < self.prev_applied[name]:
                self.V('C04', 'applied-index-decreased', '%s applied index %d -> %d' % (name, self.prev_applied[name], a))
            self.prev_applied[name] = a
        for (name, pos, cid, method) in self.events:
            self.all_events += 1
            self.napplied[name] += 1
            key = (name, self.incarnation[name])
            if pos <= self.last_exec[key]:
                self.V('C01', 'position-executed-again-or-out-of-order',
                       '%s executed position %d after position %d' % (name, pos, self.last_exec[key]))
            self.last_exec[key] = pos
            g = self.G.get(pos)
            if g is None:
                self.V('C01', 'applied-position-never-committed', '%s executed %s(cid %d) at position %d that no node reported committed' % (name, method, cid, pos))
                continue
            d = self.decode(g[0])
            if d is None or d[0] != method or d[1][0] != cid:
                self.V('C01', 'applied-differs-from-committed',
                       '%s executed %s(cid %d) at position %d but the committed entry there is %r (first reported by %s at step %d)' % (
                           name, method, cid, pos, d, self.G_by[pos][0], self.G_by[pos][1]))
        self.events = []
        # state == fold(G)
        for name in self.live():
            obj = self.nodes[name]
            a = obj.raftLastApplied
            if not self.extend_model(a):
                self.counters['model_hole'] += 1
                continue
            if obj.state_key() != self.model_keys[a]:
                self.V('C01', 'state-differs-from-fold',
                       '%s at applied index %d has state (count %r, chain %r, kv %r), fold of the committed prefix gives %r' % (
                           name, a, obj.count, obj.chain, obj.kv, self.model_keys[a]))
        if self.G:
            self.extend_model(max(self.G))
        self.check_callbacks()
        # leaders per term / leader completeness
        for (step, name, old, new, term, mem_then) in self.role_events:
            if new == 2:
                prevl = self.leader_of.get(term)
                if prevl is not None and prevl != (name, self.incarnation[name]):
                    self.V('C03', 'two-leaders-in-term', '%s became leader of term %d, but %s already was' % (name, term, prevl[0]))
                self.leader_of[term] = (name, self.incarnation[name])
                mem = mem_then or self.member_set(name)
                got = 1 + sum(1 for v in mem if v != name and name in self.votes_flat.get((v, term), ()))
                if got * 2 <= len(mem) and not self.is_ro(name):
                    self.V('C03', 'leader-without-majority-of-votes',
                           '%s became leader of term %d with votes from only %d of %d voters (self included): %r' % (
                               name, term, got, len(mem), sorted(v for v in mem if name in self.votes_flat.get((v, term), ()))))
                self.terms_with_leader.add(term)
                self.counters['leader_elected'] += 1
                if any(not sub['cbs'] for sub in self.subs.values()):
                    self.unanswered_at_leader_change = True
                if self.is_ro(name):
                    self.V('C18', 'readonly-became-leader', '%s' % name)
                obj = self.nodes.get(name)
                if obj is not None:
                    for p, e in self.G.items():
                        # Leader Completeness speaks about leaders of terms after the one in which the entry was
                        # committed; a leader of an older term can still emerge from delayed votes (it cannot commit)
                        if self.G_term.get(p, 0) >= term:
                            self.counters['stale_term_leader_emerged'] += 1
                            continue
                        if not self.holds(name, p, e):
                            ent = entry_at(obj, p)
                            self.V('C03', 'new-leader-lacks-committed-entry',
                                   '%s became leader of term %d but lacks committed position %d (term %d, %r); it holds %r' % (
                                       name, term, p, e[2], self.decode(e[0]), None if ent is None else (ent[2], self.decode(ent[0]))))
                            break
                    if self.G:
                        self.counters['election_with_committed'] += 1
        self.role_events = []
        if not light or self.step_no % 5 == 0:
            self.check_log_matching()
        self.leader_before = dict((n, self.nodes[n]._isLeader()) for n in self.live())
        for h in self.after_step_hooks:
            h()

    def check_callbacks(self):
        for cid, sub in self.subs.items():
            cbs = sub['cbs']
            if sub.get('seen', 0) == len(cbs):
                continue
            new = cbs[sub.get('seen', 0):]
            sub['seen'] = len(cbs)
            if len(cbs) > 1:
                self.V('C02', 'callback-fired-twice', 'submission cid %d on %s got callbacks %r' % (cid, sub['node'], [(FR.get(e, e), st) for _, e, st in cbs]))
            for res, err, st in new:
                self.counters['cb_' + FR.get(err, str(err))] += 1
                if err == 0 and sub.get('cut_epoch') is not None and sub['inc'] == self.incarnation[sub['node']] and \
                        self.cut_off(sub['node']) and self.cut_epoch[sub['node']] == sub['cut_epoch']:
                    self.V('C20', 'success-while-cut-off', 'cid %d was submitted on %s while it was cut off from a majority and got SUCCESS while still cut off' % (cid, sub['node']))
                if err == 0:
                    obj = self.nodes.get(sub['node'])
                    if obj is not None and not self.extend_model(obj.raftLastApplied):
                        self.counters['model_hole'] += 1
                        continue        # a committed position was never observed with its entry: cannot decide
                    pos = sorted(self.cid_positions.get(cid, ()))
                    if len(pos) != 1:
                        self.V('C02', 'success-but-not-in-sequence', 'cid %d on %s reported SUCCESS, but it occupies positions %r of the common sequence' % (cid, sub['node'], pos))
                    elif res != self.model_results[pos[0]]:
                        self.V('C02', 'success-with-wrong-result', 'cid %d on %s reported SUCCESS with result %r, executing the sequence gives %r at position %d' % (
                            cid, sub['node'], res, self.model_results[pos[0]], pos[0]))
                elif err in (1, 2, 3, 4, 6):
                    self.failed_cids[cid] = FR[err]
                    if self.cid_positions.get(cid):
                        self.V('C02', 'applied-after-definite-failure:%s' % FR[err],
                               'command cid %d was reported %s to its submitter but is committed at position %r' % (cid, FR[err], sorted(self.cid_positions[cid])))

    def check_match_index(self):
        """What the leader of the highest term counts as acknowledged by a follower (its matchIndex) must be in that
        follower's log (or covered by its snapshot): acknowledgements are what commit decisions are made of."""
        live = [n for n in self.live() if not self.is_ro(n)]
        if not live:
            return
        top = max(self.nodes[n].raftCurrentTerm for n in live)
        for name in live:
            obj = self.nodes[name]
            if not obj._isLeader() or obj.raftCurrentTerm != top:
                continue
            try:
                match = dict(obj._SyncObj__raftMatchIndex)
            except AttributeError:
                return
            for node, m in match.items():
                v = self.addr2name.get(getattr(node, 'address', None))
                if v is None or v not in self.nodes or m <= 1 or self.incarnation[v] != self.inc_at_leader.get((name, v), self.incarnation[v]):
                    continue
                mine = entry_at(obj, m)
                if mine is None:
                    continue
                theirs = entry_at(self.nodes[v], m)
                if theirs is not None:
                    ok = theirs[2] == mine[2]
                else:
                    log = log_of(self.nodes[v])
                    ok = len(log) > 0 and log[0][1] > m and self.nodes[v].raftLastApplied >= m
                if not ok:
                    self.V('C04', 'match-index-not-backed-by-follower',
                           'leader %s (term %d) counts position %d (term %d) as acknowledged by %s, whose log holds %r there (log %r..%r)' % (
                               name, top, m, mine[2], v, None if theirs is None else theirs[2],
                               log_of(self.nodes[v])[0][1] if len(log_of(self.nodes[v])) else None, log_of(self.nodes[v])[-1][1] if len(log_of(self.nodes[v])) else None))
                    return

    def check_committed_stay(self):
        mem = self.member_set(None)
        need = len(mem) // 2 + 1
        # per voter: positions it provably holds = log range with matching term, or snapshot-covered
        for p in sorted(self.G, reverse=True):
            e = self.G[p]
            cnt = 0
            for v in mem:
                if self.holds(v, p, e):
                    cnt += 1
            if cnt < need:
                who = dict((v, (entry_at(self.nodes[v], p) or ('-', None, None))[1:] if v in self.nodes else 'down') for v in sorted(mem))
                self.V('C04', 'committed-entry-left-majority',
                       'position %d (term %d), reported committed by %s at step %d, is now stored by only %d of %d voters: %r' % (
                           p, e[2], self.G_by[p][0], self.G_by[p][1], cnt, len(mem), who))
                return
            if p < self.model_pos - 30:
                break

    def check_log_matching(self):
        names = [n for n in self.live()]
        logs = {}
        for n in names:
            log = log_of(self.nodes[n])
            logs[n] = dict((e[1], (e[2], bytes(e[0]))) for e in log[:])
        for i, x in enumerate(names):
            for y in names[i + 1:]:
                lx, ly = logs[x], logs[y]
                common = sorted(set(lx) & set(ly))
                top = None
                for p in reversed(common):
                    if lx[p][0] == ly[p][0]:
                        top = p
                        break
                if top is None:
                    continue
                for p in common:
                    if p > top:
                        break
                    if lx[p] != ly[p]:
                        self.V('C04', 'log-matching-broken',
                               '%s and %s both hold position %d with term %d but differ at position %d: (term %d) vs (term %d)' % (
                                   x, y, top, lx[top][0], p, lx[p][0], ly[p][0]))
                        return

    # ---------------------------------------------------------------- teardown
    def destroy(self):
        for name, obj in list(self.nodes.items()):
            try:
                obj._doDestroy()
            except Exception:
                pass
        self.nodes = {}
        # finalizers of this case's objects (journals, serializers, transports) must run now, not at an arbitrary
        # moment inside a later case of the same process
        self.after_step_hooks = []
        self.on_send_hooks = []
        self.on_deliver_hooks = []
        import gc
        gc.collect(1)       # the young generations hold this case's objects; a full collection per case is too slow
        Sim._destroyed = getattr(Sim, '_destroyed', 0) + 1
        if Sim._destroyed % 50 == 0:
            gc.collect()

    def summary(self):
        return {
            'leaders': len(self.terms_with_leader),
            'committed': len(self.G),
            'applied_events': self.all_events,
            'net': dict(self.net.stats),
            'counters': dict(self.counters),
        }
