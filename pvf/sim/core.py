"""E1 - deterministic Raft cluster simulator over real SyncObj objects.

Seams (all taken from harness code, no repository change):
  network    SyncObj(..., transportClass=SimTransport)
  clock      pysyncobj.syncobj.monotonicTime -> per-node virtual clocks
  randomness pysyncobj.syncobj.random        -> per-case seeded random.Random
  poller     pysyncobj.syncobj.createPoller  -> no-op poller, PIPE_NOTIFIER off

Network model: one connection *generation* per (dialer, acceptor) attempt with
two FIFO queues of pickled messages; break keeps a prefix of what is in
flight; each endpoint notices a dead generation separately (or never); the
dialer (larger address; a read-only node always dials) reconnects only after it
noticed; the acceptor learns of a new generation when the hello at the head of
its queue is delivered, possibly without having noticed the death of the old
one (then the old generation's queue towards it stays deliverable: stale
connection object).
"""
import collections
import random as _random
import zlib

import pysyncobj.syncobj as S
import pysyncobj.pickle as ppickle
from pysyncobj import SyncObj, SyncObjConf, replicated, FAIL_REASON
from pysyncobj.node import Node, TCPNode
from pysyncobj.transport import Transport

HELLO = '<hello>'
EPOCH = 1000.0


# ------------------------------------------------------------------ clock/rng

class Clock(object):
    def __init__(self):
        self.t = {}
        self.active = None
        self.read_cost = 1e-6

    def reset(self):
        self.t = {}
        self.active = None

    def now(self):
        a = self.active
        v = self.t.get(a, EPOCH) + self.read_cost
        self.t[a] = v
        return v

    def advance(self, name, dt):
        self.t[name] = self.t.get(name, EPOCH) + dt


CLOCK = Clock()


class _Rng(object):
    """Stands in for the `random` module inside pysyncobj.syncobj."""

    def __init__(self):
        self.r = _random.Random(0)

    def reseed(self, seed):
        self.r = _random.Random(seed)

    def random(self):
        return self.r.random()

    def __getattr__(self, name):
        return getattr(self.r, name)


RNG = _Rng()


class NullPoller(object):
    def subscribe(self, descr, callback, eventMask):
        pass

    def unsubscribe(self, descr):
        pass

    def poll(self, timeout):
        pass


_installed = False


def install():
    global _installed
    if _installed:
        return
    S.monotonicTime = CLOCK.now
    S.random = RNG
    S.createPoller = lambda pollerType: NullPoller()
    S.PIPE_NOTIFIER_ENABLED = False
    _installed = True


# ------------------------------------------------------------------ network

class Gen(object):
    __slots__ = ('id', 'a', 'b', 'alive', 'q', 'open', 'ro_node', 'sent', 'delivered')

    def __init__(self, gid, a, b):
        self.id = gid
        self.a = a          # dialer name
        self.b = b          # acceptor name
        self.alive = True
        self.q = {a: collections.deque(), b: collections.deque()}   # q[x]: messages travelling TO x
        self.open = {a: True, b: False}
        self.ro_node = None   # Node object under which acceptor b knows read-only dialer a
        self.sent = 0
        self.delivered = 0

    def peer(self, x):
        return self.b if x == self.a else self.a


class Net(object):
    def __init__(self, sim):
        self.sim = sim
        self.transports = {}        # name -> SimTransport (live incarnation)
        self.view = collections.defaultdict(dict)     # view[x][y] = Gen x uses towards y
        self.gens = []              # all generations that may still matter
        self.gid = 0
        self.ro_counter = collections.Counter()   # acceptor name -> next read-only id
        self.send_cost = 0.0005
        self.msg_log = None         # optional: list of (step, src, dst, type)
        self.stats = collections.Counter()

    # -- helpers
    def addr_to_name(self, addr):
        return self.sim.addr2name.get(addr)

    def node_for(self, x, peer, gen=None):
        """Node object under which endpoint x knows `peer`."""
        if self.sim.is_ro(peer):
            if gen is not None:
                return gen.ro_node
            return None
        return self.sim.node_obj(peer)

    def dialer_of(self, x, y):
        if self.sim.is_ro(x):
            return x
        if self.sim.is_ro(y):
            return y
        return x if self.sim.addr[x] > self.sim.addr[y] else y

    # -- transport side
    def send(self, tr, node, message):
        x = tr.name
        if tr is not self.transports.get(x) or x in self.sim.zombies:
            return False        # zombie / destroyed incarnation
        CLOCK.advance(x, self.send_cost)
        y = self._resolve(x, node)
        if y is None:
            return False
        gen = self.view[x].get(y)
        if gen is None:
            return False
        if self.sim.is_ro(y) and gen.ro_node is not node and gen.ro_node != node:
            return False
        self.stats['sent'] += 1
        if self.msg_log is not None:
            self.msg_log.append((self.sim.step_no, x, y, message.get('type') if isinstance(message, dict) else '?', message))
        self.sim.on_send(x, y, gen, message)
        if gen.alive:
            gen.q[y].append(ppickle.dumps(message))
            gen.sent += 1
        else:
            self.stats['sent_into_dead'] += 1
        return True

    def _resolve(self, x, node):
        if isinstance(node, TCPNode):
            return self.addr_to_name(node.address)
        # read-only node known to x under a counter id
        for y, gen in self.view[x].items():
            if gen.ro_node is not None and gen.ro_node == node and gen.b == x:
                return y
        return None

    # -- scheduler side
    def connectable(self, x, y):
        """May dialer x open a new generation towards y now?"""
        if x not in self.transports or self.dialer_of(x, y) != x:
            return False
        if self.view[x].get(y) is not None:
            return False
        trx = self.transports[x]
        if not self.sim.is_ro(y) and self.sim.addr[y] not in trx.known:
            return False
        return True

    def connect(self, x, y):
        if not self.connectable(x, y):
            return False
        if y not in self.transports:
            self.stats['connect_refused'] += 1
            return False            # peer process is down: refused
        self.gid += 1
        gen = Gen(self.gid, x, y)
        gen.q[y].append(HELLO)
        self.gens.append(gen)
        self.view[x][y] = gen
        self.stats['connects'] += 1
        self.sim.notified[x].add(y)
        self.sim.call(x, self.transports[x]._onNodeConnected, self.sim.node_obj(y))
        return True

    def deliverable(self, gen, to):
        if to not in self.transports or not gen.q[to]:
            return False
        if gen.q[to][0] is HELLO:
            return True
        return gen.open[to]

    def deliver(self, gen, to):
        if not self.deliverable(gen, to):
            return False
        m = gen.q[to].popleft()
        frm = gen.peer(to)
        tr = self.transports[to]
        if m is HELLO:
            if not self.sim.is_ro(frm) and self.sim.addr[frm] not in tr.known:
                # unknown peer: the acceptor closes the connection
                gen.alive = False
                gen.q[to].clear()
                self.stats['hello_rejected'] += 1
                return True
            old = self.view[to].get(frm)
            if old is not None and old is not gen and old.id > gen.id:
                # The hello of an older generation after a newer one has been registered: the acceptor takes
                # connections in the order they were established, so this order does not occur with one listener
                # (and the real transport would repair the confusion by its read timeout, which is not modelled).
                gen.alive = False
                gen.q[to].clear()
                self.stats['stale_hello_dropped'] += 1
                return True
            gen.open[to] = True
            self.view[to][frm] = gen
            if old is not None and old is not gen:
                self.stats['stale_replaced'] += 1
            if self.sim.is_ro(frm):
                nid = str(self.ro_counter[to])
                self.ro_counter[to] += 1
                gen.ro_node = Node(nid)
                self.sim.call(to, tr._onReadonlyNodeConnected, gen.ro_node)
            else:
                self.sim.notified[to].add(frm)
                self.sim.call(to, tr._onNodeConnected, self.sim.node_obj(frm))
            return True
        msg = ppickle.loads(m)
        gen.delivered += 1
        self.stats['delivered'] += 1
        if self.view[to].get(frm) is not gen:
            self.stats['delivered_on_stale'] += 1
        node = gen.ro_node if self.sim.is_ro(frm) else self.sim.node_obj(frm)
        self.sim.on_deliver(frm, to, gen, msg)
        self.sim.call(to, tr._onMessageReceived, node, msg)
        return True

    def break_(self, gen, keep_a, keep_b):
        if not gen.alive:
            return False
        gen.alive = False
        for x, keep in ((gen.a, keep_a), (gen.b, keep_b)):
            q = gen.q[x]
            while len(q) > keep:
                q.pop()
        self.stats['breaks'] += 1
        return True

    def noticeable(self, gen, x):
        return (not gen.alive) and gen.open[x] and x in self.transports

    def notice(self, gen, x):
        if not self.noticeable(gen, x):
            return False
        gen.open[x] = False
        gen.q[x].clear()
        y = gen.peer(x)
        tr = self.transports[x]
        self.stats['notices'] += 1
        if self.view[x].get(y) is gen:
            del self.view[x][y]
            if self.sim.is_ro(y):
                tr.readonly.discard(gen.ro_node)
                self.sim.call(x, tr._onReadonlyNodeDisconnected, gen.ro_node)
            else:
                self.sim.notified[x].discard(y)
                self.sim.call(x, tr._onNodeDisconnected, self.sim.node_obj(y))
        return True

    def local_close(self, x, y):
        """x closes its connection to y on its own (dropNode/destroy): no callback to x."""
        gen = self.view[x].pop(y, None)
        if gen is not None:
            gen.alive = False
            gen.open[x] = False
            gen.q[x].clear()

    def endpoint_gone(self, x):
        """Process x died: every generation it took part in is dead."""
        for gen in self.gens:
            if x in (gen.a, gen.b):
                gen.alive = False
                gen.open[x] = False
                gen.q[x].clear()
        self.view.pop(x, None)
        self.transports.pop(x, None)

    def gc(self):
        self.gens = [g for g in self.gens if g.alive or g.open[g.a] or g.open[g.b]]

    def live_links(self):
        return [g for g in self.gens if g.alive or g.open[g.a] or g.open[g.b]]


_CURRENT = {'net': None, 'name': None}


class SimTransport(Transport):
    def __init__(self, syncObj, selfNode, otherNodes):
        super(SimTransport, self).__init__(syncObj, selfNode, otherNodes)
        self.net = _CURRENT['net']
        self.name = _CURRENT['name']
        self.selfNode = selfNode
        self.known = set()          # addresses of voters this node accepts / dials
        self.readonly = set()
        for n in otherNodes:
            self.known.add(n.address)
        self.net.transports[self.name] = self
        self.destroyed = False

    def addNode(self, node):
        self.known.add(node.address)

    def dropNode(self, node):
        if isinstance(node, TCPNode):
            self.known.discard(node.address)
            y = self.net.addr_to_name(node.address)
            if y is not None:
                self.net.local_close(self.name, y)
        else:
            y = self.net._resolve(self.name, node)
            if y is not None:
                self.net.local_close(self.name, y)

    def send(self, node, message):
        return self.net.send(self, node, message)

    def destroy(self):
        self.destroyed = True
        self.setOnMessageReceivedCallback(None)
        self.setOnNodeConnectedCallback(None)
        self.setOnNodeDisconnectedCallback(None)
        self.setOnReadonlyNodeConnectedCallback(None)
        self.setOnReadonlyNodeDisconnectedCallback(None)


# ------------------------------------------------------------------ probe object

def fold_hash(chain, *parts):
    h = chain
    for p in parts:
        if isinstance(p, (bytes, bytearray)):
            h = zlib.crc32(bytes(p), h)
        else:
            h = zlib.crc32(repr(p).encode(), h)
    return h & 0xffffffff


class ModelState(object):
    """Reference fold of the regular commands (same semantics as Probe)."""

    def __init__(self):
        self.count = 0
        self.chain = 0
        self.kv = {}

    def copy(self):
        m = ModelState()
        m.count, m.chain, m.kv = self.count, self.chain, dict(self.kv)
        return m

    def key(self):
        return (self.count, self.chain, tuple(sorted(self.kv.items())))

    def apply(self, method, args):
        if method == 'append':
            cid, payload = args
            self.chain = fold_hash(self.chain, 'append', cid, payload)
            self.count += 1
            return (self.count, self.chain)
        if method == 'put':
            cid, k, v = args
            old = self.kv.get(k)
            self.kv[k] = v
            self.chain = fold_hash(self.chain, 'put', cid, k, v)
            self.count += 1
            return (old, self.chain)
        if method == 'pop':
            cid, = args
            r = None
            if self.kv:
                k = min(self.kv)
                r = (k, self.kv.pop(k))
            self.chain = fold_hash(self.chain, 'pop', cid, r)
            self.count += 1
            return (r, self.chain)
        raise KeyError(method)


class BareProbe(SyncObj):
    """SyncObj on the simulated transport, no replicated methods of its own.
    Harness back-references are set before SyncObj.__init__, so they are not
    part of snapshots; replicated state is set after it."""

    def __init__(self, selfAddr, others, conf, sim, name, consumers=None):
        self._sim = sim
        self._simname = name
        super(BareProbe, self).__init__(selfAddr, others, conf, consumers=consumers, transportClass=SimTransport)
        self.count = 0
        self.chain = 0
        self.kv = {}

    def state_key(self):
        return (self.count, self.chain, tuple(sorted(self.kv.items())))


class Probe(BareProbe):

    @replicated
    def append(self, cid, payload):
        self._sim.on_apply(self, 'append', cid)
        self.chain = fold_hash(self.chain, 'append', cid, payload)
        self.count += 1
        return (self.count, self.chain)

    @replicated
    def put(self, cid, k, v):
        self._sim.on_apply(self, 'put', cid)
        old = self.kv.get(k)
        self.kv[k] = v
        self.chain = fold_hash(self.chain, 'put', cid, k, v)
        self.count += 1
        return (old, self.chain)

    @replicated
    def pop(self, cid):
        self._sim.on_apply(self, 'pop', cid)
        r = None
        if self.kv:
            k = min(self.kv)
            r = (k, self.kv.pop(k))
        self.chain = fold_hash(self.chain, 'pop', cid, r)
        self.count += 1
        return (r, self.chain)


def log_of(obj):
    return obj._SyncObj__raftLog


def entry_at(obj, p):
    """Entry (command, idx, term) at log position p, or None if not in the log."""
    log = log_of(obj)
    if len(log) == 0:
        return None
    first = log[0][1]
    i = p - first
    if i < 0 or i >= len(log):
        return None
    e = log[i]
    if e[1] != p:
        return ('<misindexed>', e[1], e[2])
    return (bytes(e[0]) if not isinstance(e[0], bytes) else e[0], e[1], e[2])
