"""Hypothesis strategies for simulator cases: (configuration, step list).
Cases are JSON-able: cfg dict + list of [r, a, b, c] small ints. r is mapped to
an operation through the per-case weight profile (swarm testing), a/b/c are
interpreted modulo the enabled instances, so nothing is rejected."""
from hypothesis import strategies as st

from .cluster import OPS

PROFILES = {
    #            tick deliver break notice connect submit compact calm partition heal tickall flush
    'mixed':      [22, 32, 2, 3, 6, 14, 3, 2, 1, 2, 8, 6],
    'pipelining': [26, 30, 1, 2, 4, 20, 2, 2, 0, 1, 8, 6],
    'elections':  [30, 26, 3, 4, 6, 6, 1, 2, 3, 3, 8, 5],
    'compaction': [20, 28, 1, 2, 4, 16, 10, 2, 0, 1, 10, 6],
    'faulty':     [20, 26, 9, 8, 9, 9, 3, 2, 1, 1, 7, 5],
    'isolation':  [28, 22, 1, 3, 5, 10, 1, 2, 8, 4, 12, 4],
}


def op_table(profile, extra=None):
    w = list(PROFILES[profile])
    names = list(OPS)
    if extra:
        for name, weight in extra:
            names.append(name)
            w.append(weight)
    table = []
    for name, weight in zip(names, w):
        table.extend([name] * weight)
    return table


def cfg_strategy(n_min=2, n_max=5, profiles=None, fixed=None, batch_bytes=None, **_kw):
    profiles = profiles or [p for p in PROFILES if p != 'isolation']
    d = {
        'n': st.integers(n_min, n_max),
        'rng': st.integers(0, 2 ** 16),
        'send_cost': st.integers(0, 2),
        'batch': st.booleans(),
        'batch_bytes': batch_bytes or st.sampled_from([1, 8, 20, 30, 40, 64, 100, 300, 65536]),
        'compact_chunk': st.sampled_from([1, 7, 50, 200, 65536]),
        'compact_min_entries': st.sampled_from([2, 3, 5, 10, 1000]),
        'compact_min_time': st.sampled_from([0.05, 1.0, 300.0]),
        'wait_leader': st.booleans(),
        'queue_size': st.sampled_from([0, 2, 100000, 100000]),
        'fallback': st.sampled_from([0.11, 0.5, 2.0, 30.0]),
        'profile': st.sampled_from(profiles),
        'boot': st.sampled_from([True, True, True, False]),
        'tbl': st.just(2),
    }
    if fixed:
        for k, v in fixed.items():
            d[k] = st.just(v)
    return st.fixed_dictionaries(d)


def steps_strategy(max_steps):
    step = st.tuples(st.integers(0, 99), st.integers(0, 31), st.integers(0, 7), st.integers(0, 63)).map(list)
    return st.integers(1, max_steps).flatmap(lambda n: st.lists(step, min_size=n, max_size=n))


def case_strategy(max_steps, **kw):
    return st.fixed_dictionaries({'cfg': cfg_strategy(**kw), 'steps': steps_strategy(max_steps)})
