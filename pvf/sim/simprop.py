"""Shared driver for properties decided on the E1 simulator."""
import os
import shutil
import time

from .. import env, runner, findings
from ..runner import Result
from . import cluster, gen, core

_case_no = [0]


def new_workdir(tag):
    d = os.path.join(env.tmpdir(), '%s-%d-%d' % (tag, os.getpid(), _case_no[0]))
    _case_no[0] += 1
    os.makedirs(d)
    return d


def boot(sim, rounds=100, need_leader=False):
    for _ in range(rounds):
        sim.calm_round()
        sim.check(light=True)
        if sim.viol:
            return
    if need_leader:
        # split votes can repeat: keep going (bounded) until the healthy cluster has its leader
        for _ in range(3000):
            if sum(1 for n in sim.live() if sim.nodes[n]._isLeader()) == 1:
                return
            sim.calm_round()
            sim.check(light=True)


def run_steps(sim, case, extra_ops=None, extra_v2=None):
    """Op tables are versioned by cfg['tbl'] so that saved replays keep their meaning when macro steps are added:
    absent/1 = the table the regression replays were recorded with; 2 = extra_v2 (if given) plus the lagsnap macro step."""
    cfg = case['cfg']
    if extra_ops is None:
        extra_ops = [('churn', 2)]
    if cfg.get('tbl', 1) >= 2:
        extra_ops = list(extra_v2 if extra_v2 is not None else extra_ops) + [('lagsnap', 2), ('hold', 2), ('stalereply', 1), ('fig8', 1)]
    table = gen.op_table(cfg.get('profile', 'mixed'), extra_ops)
    resolved = []
    # replay files store the step list with operation names, so that they keep their meaning when tables change
    sim.case_ref = case
    sim.canonical_steps = [[s[0] if isinstance(s[0], str) else _op_of(table, cfg, s)] + list(s[1:]) for s in case['steps']]
    if cfg.get('boot', True):
        boot(sim)
    for s in case['steps']:
        if sim.viol:
            break
        if isinstance(s[0], str):
            op = s[0]
        elif cfg.get('tbl', 1) >= 2:
            # finer resolution than r alone: with more than 100 table slots r*len//100 skips some of them
            fine = (s[0] % 100) * 100 + ((s[1] * 64 + s[3]) % 100 if len(s) > 3 else 0)
            op = table[fine * len(table) // 10000]
        else:
            op = table[(s[0] % 100) * len(table) // 100]
        r = sim.do_step([op] + list(s[1:]))
        if len(resolved) < 60:
            resolved.append([op, r if r is not False else 'no-op'])
    return resolved


def _op_of(table, cfg, s):
    if cfg.get('tbl', 1) >= 2:
        fine = (s[0] % 100) * 100 + ((s[1] * 64 + s[3]) % 100 if len(s) > 3 else 0)
        return table[fine * len(table) // 10000]
    return table[(s[0] % 100) * len(table) // 100]


def base_classes(sim):
    cl = set()
    if len(sim.terms_with_leader) >= 2:
        cl.add('leader-change')
    if sim.net.stats.get('breaks'):
        cl.add('connection-break')
    if sim.snapshot_msgs:
        cl.add('snapshot-transfer')
    if any(len(core.log_of(o)) and core.log_of(o)[0][1] > 1 for o in sim.nodes.values()):
        cl.add('log-compacted')
    if sim.counters.get('stale_replies_delivered'):
        cl.add('reply-of-earlier-term-delivered')
    if sim.counters.get('fig8_state_reached'):
        cl.add('figure-8-state-reached')
    if sim.counters.get('holds'):
        cl.add('slow-direction')
    if sim.counters.get('lagsnap_completed'):
        cl.add('catch-up-macro')
    if sim.net.stats.get('stale_replaced'):
        cl.add('stale-connection-replaced')
    if sim.max_inflight_ae >= 2:
        cl.add('pipelined-append')
    if sim.escaped:
        cl.add('escaped-exception')
    for k in ('cb_SUCCESS', 'cb_QUEUE_FULL', 'cb_MISSING_LEADER', 'cb_DISCARDED', 'cb_NOT_LEADER', 'cb_LEADER_CHANGED', 'cb_REQUEST_DENIED'):
        if sim.counters.get(k):
            cl.add(k)
    cl.add('n=%d' % sim.cfg['n'])
    return cl


def result_for(prop, sim, resolved, nontrivial, classes):
    own = [v for v in sim.all_viol if v[0] == prop]
    violation = None
    if own:
        unknown = [v for v in own if findings.match(prop, v[1]) is None]
        v = unknown[0] if unknown else own[0]
        violation = (v[1], v[2])
    for v in sim.all_viol:
        if v[0] != prop:
            classes.add('other-property-monitor:%s:%s' % (v[0], v[1]))
    sample = {'cfg': dict((k, v) for k, v in sim.cfg.items() if k in ('n', 'batch', 'batch_bytes', 'compact_chunk', 'compact_min_entries', 'profile', 'queue_size', 'wait_leader', 'fallback', 'n_ro')),
              'steps': resolved[:25], 'summary': {'leaders': len(sim.terms_with_leader), 'committed': len(sim.G), 'apply_events': sim.all_events}}
    res = Result(nontrivial=nontrivial, classes=sorted(classes), violation=violation, sample=sample)
    if getattr(sim, 'case_ref', None) is not None:
        res.canonical_case = dict(sim.case_ref, steps=sim.canonical_steps)
    return res


def standard_main(prop, level, modname, rule, assumptions, tier, seed, cases, quick=(8, 250), thorough=(16, 4000), extra=None):
    t0 = time.time()
    shards, n = quick if tier == 'quick' else thorough
    if cases:
        n = cases
    kws = [dict(seed=seed * 1000 + i, n=n, tier=tier) for i in range(shards)]
    stats = runner.run_shards(modname, 'shard', kws)
    return runner.finish(prop, level, tier, seed, stats, rule, assumptions, t0, extra=extra)


def standard_shard(prop, strategy, run_case, seed, n, tier):
    stats = runner.Stats()
    runner.explore(prop, strategy, run_case, n, seed, stats, shrink=True)
    return stats
