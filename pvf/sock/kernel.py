"""E3 - simulated sockets under virtual time: a fake `socket` module backed by a
small kernel model + a mask-honouring poller. Implements only what
pysyncobj.tcp_connection / tcp_server use.

Faults: connect outcome per attempt (accept / refuse / black-hole until the
kernel SYN timeout), RST, FIN on close, black-holed established connections
(bytes vanish, no events), half-open after the peer host vanished (next send is
answered with RST), TCP keepalive honoured only if the code set the options,
smallest-first fd reuse per process.
"""
import errno
import socket as _real

SYN_TIMEOUT = 63.0


class Clock(object):
    def __init__(self):
        self.t = 10000.0

    def now(self):
        return self.t


class FakeSock(object):
    def __init__(self, kernel, proc, family=None):
        self.k = kernel
        self.proc = proc
        self.fd = kernel.alloc_fd(proc)
        self.state = 'new'
        self.peer = None
        self.rbuf = bytearray()
        self.eof = False
        self.err = 0
        self.opts = {}
        self.accept_q = []
        self.addr = None
        self.blackholed = False
        self.half_open = False
        self.connect_deadline = None
        self.connect_done = False
        self.last_rx = kernel.clock.now()
        self.sent_bytes = 0
        kernel.socks[(proc, self.fd)] = self

    # -- API used by pysyncobj
    def fileno(self):
        return self.fd

    def setsockopt(self, level, opt, val):
        self.opts[(level, opt)] = val

    def setblocking(self, v):
        pass

    def getsockopt(self, level, opt):
        if level == _real.SOL_SOCKET and opt == _real.SO_ERROR:
            e = self.err
            self.err = 0
            return e
        return self.opts.get((level, opt), 0)

    def bind(self, addr):
        if addr[1] in [a[1] for a in self.k.listeners if self.k.listeners[a].proc == self.proc]:
            raise _real.error(errno.EADDRINUSE, 'in use')
        self.addr = addr

    def listen(self, n):
        self.state = 'listening'
        self.k.listeners[(self.proc, self.addr[1])] = self

    def accept(self):
        if not self.accept_q:
            raise _real.error(errno.EAGAIN, 'again')
        s = self.accept_q.pop(0)
        return s, ('peer', 0)

    def connect(self, addr):
        host, port = addr
        dst = self.k.host2proc.get(host)
        self.state = 'connecting'
        self.k.stats['connect_attempts'] += 1
        outcome = self.k.connect_outcome(self.proc, dst, port)
        if outcome == 'accept':
            lst = self.k.listeners.get((dst, port))
            srv = FakeSock(self.k, dst)
            srv.state = 'connected'
            srv.peer = self
            self.peer = srv
            lst.accept_q.append(srv)
            self.connect_done = True
        elif outcome == 'refuse':
            self.err = errno.ECONNREFUSED
            self.connect_done = True
        else:
            self.connect_deadline = self.k.clock.now() + SYN_TIMEOUT
        raise _real.error(errno.EINPROGRESS, 'in progress')

    def send(self, data):
        if self.state == 'closed':
            raise _real.error(errno.EBADF, 'closed')
        if self.err:
            e, self.err = self.err, 0
            raise _real.error(e, 'error')
        if self.state == 'connecting':
            raise _real.error(errno.EAGAIN, 'handshake in progress')      # Linux: tcp_sendmsg on SYN_SENT, non-blocking
        if self.state != 'connected':
            raise _real.error(errno.ENOTCONN, 'not connected')
        if self.half_open:
            # the peer host is back without this connection: it answers with RST
            self.err = errno.ECONNRESET
            self.sent_bytes += len(data)
            return len(data)
        if self.blackholed or self.peer is None:
            self.sent_bytes += len(data)
            return len(data)            # vanishes (until the send buffer would fill: not modelled)
        if self.peer.state == 'closed':
            # the peer closed: this send still succeeds locally, the RST it provokes fails the *next* operation
            self.err = errno.ECONNRESET
            self.sent_bytes += len(data)
            return len(data)
        self.peer.rbuf += data
        self.peer.last_rx = self.k.clock.now()
        self.sent_bytes += len(data)
        return len(data)

    def recv(self, n):
        if self.state == 'closed':
            raise _real.error(errno.EBADF, 'closed')
        if self.err:
            e, self.err = self.err, 0
            raise _real.error(e, 'error')
        if self.rbuf:
            k = min(n, len(self.rbuf), self.k.recv_chunk)
            data = bytes(self.rbuf[:k])
            del self.rbuf[:k]
            return data
        if self.eof:
            return b''
        raise _real.error(errno.EAGAIN, 'again')

    def close(self):
        if self.state == 'closed':
            return
        if self.state == 'listening':
            self.k.listeners.pop((self.proc, self.addr[1]), None)
            for s in self.accept_q:
                s.close()
        if self.peer is not None and self.peer.state != 'closed' and not self.blackholed and not self.half_open:
            self.peer.eof = True
        self.state = 'closed'
        self.k.free_fd(self.proc, self.fd)
        self.k.socks.pop((self.proc, self.fd), None)


class FakeSocketModule(object):
    """Stands in for the `socket` module inside tcp_connection / tcp_server."""

    def __init__(self, kernel):
        self.k = kernel
        for name in ('AF_INET', 'AF_INET6', 'SOCK_STREAM', 'SOL_SOCKET', 'SO_SNDBUF', 'SO_RCVBUF', 'IPPROTO_TCP', 'TCP_NODELAY', 'SO_ERROR',
                     'SO_REUSEADDR', 'SO_KEEPALIVE', 'TCP_KEEPIDLE', 'TCP_KEEPINTVL', 'TCP_KEEPCNT', 'error', 'inet_aton', 'inet_pton'):
            setattr(self, name, getattr(_real, name))
        self.errno = errno

    def socket(self, family, type_):
        return FakeSock(self.k, self.k.current)


class Kernel(object):
    def __init__(self):
        import collections
        self.clock = Clock()
        self.socks = {}
        self.listeners = {}
        self.host2proc = {}
        self.fds = collections.defaultdict(set)
        self.current = None
        self.stats = collections.Counter()
        self.recv_chunk = 1 << 20
        self.connect_plan = []          # outcomes for the next connect attempts: accept/refuse/blackhole
        self.partitioned = set()        # frozenset({procA, procB})
        self.down = set()               # hosts that are off: connects are black-holed

    def alloc_fd(self, proc):
        used = self.fds[proc]
        fd = 3
        while fd in used:
            fd += 1
        used.add(fd)
        return fd

    def free_fd(self, proc, fd):
        self.fds[proc].discard(fd)

    def connect_outcome(self, src, dst, port):
        if dst is None or dst in self.down or frozenset((src, dst)) in self.partitioned:
            return 'blackhole'
        forced = self.connect_plan.pop(0) if self.connect_plan else 'accept'
        if forced == 'blackhole':
            return 'blackhole'
        if (dst, port) not in self.listeners or forced == 'refuse':
            return 'refuse'
        return 'accept'

    # -- faults on established connections
    def connections(self):
        """Established client-side sockets (each connection once)."""
        return [s for s in self.socks.values() if s.state == 'connected' and s.peer is not None and s.connect_done and s.peer.state == 'connected']

    def reset(self, s):
        for x in (s, s.peer):
            if x is not None and x.state == 'connected':
                x.err = errno.ECONNRESET
        self.stats['resets'] += 1

    def blackhole(self, s):
        for x in (s, s.peer):
            if x is not None:
                x.blackholed = True
        self.stats['blackholes'] += 1

    def vanish(self, proc):
        """Host of `proc` goes away without FIN/RST; peers keep half-open connections."""
        for (p, fd), s in list(self.socks.items()):
            if p == proc:
                if s.peer is not None and s.peer.state in ('connected', 'connecting'):
                    s.peer.half_open = True
                    s.peer.peer = None
                s.state = 'closed'
                self.socks.pop((p, fd), None)
        for key in [k for k in self.listeners if k[0] == proc]:
            self.listeners.pop(key)
        self.fds[proc] = set()
        self.stats['vanish'] += 1

    # -- time-driven kernel events
    def advance(self, dt):
        self.clock.t += dt
        now = self.clock.t
        for s in list(self.socks.values()):
            if s.state == 'connecting' and not s.connect_done and s.connect_deadline is not None and now >= s.connect_deadline:
                s.err = errno.ETIMEDOUT
                s.connect_done = True
            if s.state == 'connected' and (s.blackholed or s.half_open) and s.opts.get((_real.SOL_SOCKET, _real.SO_KEEPALIVE)):
                idle = s.opts.get((_real.IPPROTO_TCP, _real.TCP_KEEPIDLE), 7200)
                intvl = s.opts.get((_real.IPPROTO_TCP, _real.TCP_KEEPINTVL), 75)
                cnt = s.opts.get((_real.IPPROTO_TCP, _real.TCP_KEEPCNT), 9)
                if now - s.last_rx > idle + intvl * cnt and not s.err:
                    s.err = errno.ETIMEDOUT
                    self.stats['keepalive_timeouts'] += 1

    # -- readiness
    def events(self, proc, fd, mask):
        from pysyncobj.poller import POLL_EVENT_TYPE as EV
        s = self.socks.get((proc, fd))
        if s is None or s.state == 'closed':
            return 0
        ev = 0
        if s.state == 'listening':
            if s.accept_q:
                ev |= EV.READ
            return ev & mask
        if s.state == 'connecting':
            if s.connect_done:
                if s.err:
                    ev |= EV.ERROR | EV.WRITE
                else:
                    s.state = 'connected'
                    ev |= EV.WRITE
            return ev & (mask | EV.ERROR)
        if s.state == 'connected':
            if s.err:
                ev |= EV.ERROR | EV.READ
            if s.rbuf or s.eof:
                ev |= EV.READ
            ev |= EV.WRITE
            return ev & (mask | EV.ERROR)
        return 0


class FakePoller(object):
    def __init__(self, kernel, proc):
        self.k = kernel
        self.proc = proc
        self.subs = {}

    def subscribe(self, descr, callback, mask):
        self.subs[descr] = (callback, mask)

    def unsubscribe(self, descr):
        self.subs.pop(descr, None)

    def poll(self, timeout):
        for fd in sorted(self.subs):
            sub = self.subs.get(fd)
            if sub is None:
                continue
            cb, mask = sub
            ev = self.k.events(self.proc, fd, mask)
            if ev:
                self.k.current = self.proc
                cb(fd, ev)
