"""E2 - storage fault layer for simulator nodes (in-process 'zombie' kills).

Wraps the primitive storage writes of pysyncobj.journal and
pysyncobj.serializer, attributes each to the simulator node that is executing
(core.CLOCK.active), counts them per step and can kill that node at a chosen
primitive: KillNow (a BaseException) is raised *instead of* continuing; from
then on every primitive of that node raises again (sticky), so code that
swallows the exception with a bare `except:` cannot write anything either.
What a real SIGKILL would leave on disk is what is on disk at that moment:
  * stores into the journal mmap that completed persist, a record store can be
    cut (torn) at a byte boundary;
  * bytes still in a Python file buffer (meta .tmp, dump .tmp) are lost -> the
    kill is raised before the buffered write / the tmp file is left partial;
  * completed renames persist.
Cross-validated against real fork/_exit kills by C08.
"""
import os
import shutil

from .sim import core


class KillNow(BaseException):
    pass


class Layer(object):
    def __init__(self):
        self.installed = False
        self.count = {}          # node -> primitives in the current step
        self.log = {}            # node -> [(kind, size)]
        self.kill = None         # (node, index, mode)
        self.dead = set()
        self.killed_at = None
        self.pid = os.getpid()

    def reset(self):
        self.pid = os.getpid()
        self.count = {}
        self.log = {}
        self.kill = None
        self.dead = set()
        self.killed_at = None

    def begin_step(self):
        self.count = {}
        self.log = {}

    def prim(self, kind, size=0):
        """Called before a primitive is performed. Returns 'torn' if the primitive
        must be performed partially and then die, None to perform it normally.
        Raises KillNow for a dead node."""
        if os.getpid() != self.pid:
            return None             # forked dump child: never interfere, it must _exit inside the library
        node = core.CLOCK.active
        if node in self.dead:
            raise KillNow()
        i = self.count.get(node, 0)
        self.count[node] = i + 1
        self.log.setdefault(node, []).append((kind, size))
        k = self.kill
        if k is not None and k[0] == node and k[1] == i:
            self.killed_at = (node, i, kind, k[2])
            if k[2] == 'torn' and kind == 'mmap' and size > 4:
                return 'torn'
            self.dead.add(node)
            self.kill = None
            raise KillNow()
        return None

    def die_now(self):
        node = core.CLOCK.active
        self.dead.add(node)
        self.kill = None
        raise KillNow()

    def install(self):
        if self.installed:
            return
        import pysyncobj.journal as J
        import pysyncobj.serializer as Z
        layer = self
        orig_write = J.ResizableFile.write

        def write(rf, offset, values):
            r = layer.prim('mmap', len(values))
            if r == 'torn':
                cut = max(1, len(values) // 2)
                orig_write(rf, offset, values)
                orig_write(rf, offset + cut, b'\xee' * (len(values) - cut))
                layer.die_now()
            orig_write(rf, offset, values)
        J.ResizableFile.write = write

        real_open = open

        class WProxy(object):
            def __init__(self, f, kind):
                self._f = f
                self._kind = kind

            def write(self, data):
                layer.prim(self._kind + '-write', len(data))      # kill here = data never leaves the Python buffer
                return self._f.write(data)

            def __getattr__(self, name):
                return getattr(self._f, name)

            def __enter__(self):
                self._f.__enter__()
                return self

            def __exit__(self, et, ev, tb):
                if et is not None and issubclass(et, KillNow):
                    # killed while the file was open: buffered bytes are lost
                    try:
                        fd = self._f.fileno()
                        os.ftruncate(fd, 0)
                    except Exception:
                        pass
                    try:
                        self._f.close()
                    except Exception:
                        pass
                    return False
                return self._f.__exit__(et, ev, tb)

        def jopen(path, mode='r', *a, **kw):
            f = real_open(path, mode, *a, **kw)
            if 'w' in mode and str(path).endswith('.tmp'):
                return WProxy(f, 'meta')
            return f
        J.open = jopen

        class ShutilProxy(object):
            def __getattr__(self, name):
                return getattr(shutil, name)

            @staticmethod
            def move(a, b):
                layer.prim('meta-rename')
                return shutil.move(a, b)
        J.shutil = ShutilProxy()

        def zopen(path, mode='r', *a, **kw):
            f = real_open(path, mode, *a, **kw)
            if 'w' in mode and str(path).endswith('.tmp'):
                layer.prim('dump-tmp-open')
                return WProxy(f, 'dump')
            return f
        Z.open = zopen
        orig_replace = Z.atomicReplace

        def replace(a, b):
            layer.prim('dump-rename')
            return orig_replace(a, b)
        Z.atomicReplace = replace
        self.installed = True


LAYER = Layer()
