#!/venv/bin/python
"""Rewrite replay files so that their steps carry operation names (table-independent form).
tools/canon.py replays/regress/*.json"""
import os, sys, json
HERE = os.path.dirname(os.path.dirname(os.path.abspath(__file__)))
sys.path.insert(0, HERE)
os.environ.setdefault('PYTHONHASHSEED', '0')
from pvf import env
env.bootstrap()
import importlib
for path in sys.argv[1:]:
    doc = json.load(open(path))
    case = doc['case']
    if not isinstance(case, dict) or 'steps' not in case or not case['steps'] or isinstance(case['steps'][0][0], str):
        print('skip', path)
        continue
    mod = importlib.import_module('pvf.props.c%s' % doc['property'][1:])
    res = mod.run_case(case)
    cc = getattr(res, 'canonical_case', None)
    if cc is None:
        print('no canonical form', path)
        continue
    doc['case'] = cc
    json.dump(doc, open(path, 'w'))
    print('canonicalized', path, 'violation now:', res.violation and res.violation[0])
