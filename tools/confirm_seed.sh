#!/bin/bash
# tools/confirm_seed.sh <ID> [check ids...]  - confirm a seeded defect in a scratch worktree of /repo (removed afterwards)
ID=$1; shift; CHECKS=${@:-$ID}
W=/tmp/cf/$ID; S=/verif/seeded/$ID; OUT=/tmp/cf/$ID.result
mkdir -p /tmp/cf; rm -f $OUT
git -C /repo worktree remove --force $W 2>/dev/null; git -C /repo worktree add --detach $W HEAD -q || exit 2
cd $W; mkdir -p _out; cp $S/demo.py _out/demo.py
timeout 300 /venv/bin/python _out/demo.py > /tmp/cf/$ID.demo_clean.log 2>&1; echo "demo_clean_exit=$?" >> $OUT
if git apply --check $S/patch.diff 2>/dev/null; then git apply $S/patch.diff; echo "patch_applies=yes" >> $OUT; else echo "patch_applies=no" >> $OUT; git apply --3way $S/patch.diff >> $OUT 2>&1; fi
timeout 300 /venv/bin/python _out/demo.py > /tmp/cf/$ID.demo_patched.log 2>&1; echo "demo_patched_exit=$?" >> $OUT
timeout 2400 /venv/bin/python -m pytest -q -p no:cacheprovider --timeout=900 test_syncobj.py > /tmp/cf/$ID.tests.log 2>&1
echo "tests=$(tail -1 /tmp/cf/$ID.tests.log)" >> $OUT
grep -E "^FAILED" /tmp/cf/$ID.tests.log | sed 's/ - .*//' | tr '\n' ' ' >> $OUT; echo >> $OUT
for c in $CHECKS; do
  r=$(cd /verif && VERIF_REPO=$W VERIF_OUT=/tmp/cf/$ID.out timeout 1500 ./check $c 2>&1 | grep -E "^VIOLATION|^  signature|HARNESS-ERROR" | head -4 | tr '\n' ' ')
  echo "check_$c=${r:-no violation}" >> $OUT
done
cd /; git -C /repo worktree remove --force $W; rm -rf /tmp/cf/$ID.out
echo "done" >> $OUT
