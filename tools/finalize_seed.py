#!/venv/bin/python
"""Merge the confirmation result (/tmp/cf/<ID>.result, written by tools/confirm_seed.sh) into seeded/<ID>/meta.json."""
import json, os, sys
HERE = os.path.dirname(os.path.dirname(os.path.abspath(__file__)))
for ID in sys.argv[1:]:
    res = {}
    extra = []
    for line in open('/tmp/cf/%s.result' % ID):
        line = line.rstrip('\n')
        if '=' in line and not line.startswith('FAILED') and not line.startswith('test_'):
            k, v = line.split('=', 1)
            res[k] = v
        elif line.strip() and line != 'done':
            extra.append(line.strip())
    p = os.path.join(HERE, 'seeded', ID, 'meta.json')
    meta = json.load(open(p))
    meta['breaks_property'] = ID.split('-')[0]
    caught = dict((k[6:], v) for k, v in res.items() if k.startswith('check_'))
    meta['confirmed_by_us'] = {
        'what_we_ran': 'tools/confirm_seed.sh %s: scratch worktree of /repo HEAD under /tmp/cf (removed afterwards); demo.py on the clean tree, git apply patch.diff, demo.py again, '
                       'the baseline pytest command with the patch applied, then ./check <id> (quick tier) with VERIF_REPO pointing at the patched worktree' % ID,
        'demo_exit_on_clean_tree': int(res.get('demo_clean_exit', -1)),
        'demo_exit_with_patch': int(res.get('demo_patched_exit', -1)),
        'patch_applies_to_current_head': res.get('patch_applies'),
        'baseline_tests_with_patch': res.get('tests'),
        'failed_tests_with_patch': ' '.join(extra),
        'checks': caught,
    }
    json.dump(meta, open(p, 'w'), indent=1)
    print(ID, meta['confirmed_by_us']['demo_exit_on_clean_tree'], meta['confirmed_by_us']['demo_exit_with_patch'], res.get('tests'), caught)
