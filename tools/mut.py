#!/venv/bin/python
"""Sensitivity protocol helper: apply a named mutant (exact string replacement)
to a scratch copy of /repo/pysyncobj (under /tmp, removed afterwards), run the
given checks against it with VERIF_REPO/VERIF_OUT redirected, and report which
checks raise a VIOLATION.   tools/mut.py <mutant> <check id> [<check id> ...]
tools/mut.py --list"""
import os, shutil, subprocess, sys, tempfile, time
HERE = os.path.dirname(os.path.dirname(os.path.abspath(__file__)))
sys.path.insert(0, os.path.join(HERE, 'tools'))
from mutants import MUTANTS

def main():
    if sys.argv[1] == '--list':
        for k, v in MUTANTS.items():
            print(k, '-', v['why'])
        return
    name = sys.argv[1]
    checks = sys.argv[2:]
    extra = []
    m = MUTANTS[name]
    d = tempfile.mkdtemp(prefix='pvf-mut-')
    try:
        shutil.copytree('/repo/pysyncobj', os.path.join(d, 'pysyncobj'))
        for fn, old, new in m['edits']:
            p = os.path.join(d, 'pysyncobj', fn)
            s = open(p).read()
            if s.count(old) != 1:
                print('MUTANT-ERROR %s: pattern occurs %d times in %s' % (name, s.count(old), fn)); sys.exit(2)
            open(p, 'w').write(s.replace(old, new))
        out = os.path.join(d, 'out'); os.makedirs(out)
        env = dict(os.environ, VERIF_REPO=d, VERIF_OUT=out)
        for c in checks:
            t0 = time.time()
            r = subprocess.run([os.path.join(HERE, 'check'), c] + extra, env=env, capture_output=True, text=True)
            lines = [l for l in r.stdout.splitlines() if l.startswith('VIOLATION') or l.startswith('  signature') or l.startswith('KNOWN') or 'HARNESS' in l]
            print('%-28s %s exit=%d %.0fs %s' % (name, c, r.returncode, time.time() - t0, ' | '.join(l[:160] for l in lines[:4])))
            if r.returncode == 2:
                print(r.stdout[-1500:], r.stderr[-1500:])
    finally:
        shutil.rmtree(d, ignore_errors=True)

if __name__ == '__main__':
    main()
