#!/venv/bin/python
"""Writes sensitivity.md: table of independently seeded defects (seeded/<id>/meta.json) + pointer to the mutant table."""
import json, os, glob
HERE = os.path.dirname(os.path.dirname(os.path.abspath(__file__)))
rows = []
for d in sorted(glob.glob(os.path.join(HERE, 'seeded', 'C*'))):
    m = json.load(open(os.path.join(d, 'meta.json')))
    c = m.get('confirmed_by_us', {})
    checks = c.get('checks', {})
    caught = []
    for k, v in checks.items():
        sigs = [w.strip() for w in v.split('signature:')[1:]]
        sigs = [s.split(' VIOLATION')[0].strip() for s in sigs]
        caught.append('%s: %s' % (k, '; '.join(sigs) if sigs else v[:60]))
    rows.append('| %s | %s | %s | demo clean/patched exit %s/%s; %s | %s |' % (
        os.path.basename(d), (m.get('summary') or '')[:220].replace('\n', ' ').replace('|', '/'), (m.get('needs') or '')[:160].replace('\n', ' ').replace('|', '/'),
        c.get('demo_exit_on_clean_tree'), c.get('demo_exit_with_patch'), c.get('baseline_tests_with_patch'), '<br>'.join(caught) or 'not caught'))
out = ['# Sensitivity', '',
       '## Independently seeded defects (sub-agents saw only the property text)', '',
       'Each was confirmed by `tools/confirm_seed.sh` in a scratch worktree of /repo HEAD: `demo.py` passes on the clean tree and fails with `patch.diff`,',
       'the baseline suite still passes with the patch, and the listed check (quick tier) reports a VIOLATION with the patch applied.',
       'The full confirmation of rounds 1-2 ran on /repo 78ef7bc; after the last repair (6514bf6) all 40 patches still apply and the quick checks were run again against HEAD + patch (checks only): 40 of 40 caught,',
       'C06-r2 at VERIF_SEED=1 only after the quick tier of C06 had been enlarged from 1600 to 4200 cases (it was caught at seeds 2 and 3 before).', '',
       '| seed | change | needs | confirmation | caught by (signature) |', '|---|---|---|---|---|'] + rows + ['',
       'Round 1 = `seeded/<id>/` (C05 and C10 are second versions, the first ones no longer apply to /repo HEAD and are under `seeded/superseded/`); round 2 = `seeded/<id>-r2/`, produced later against the',
       'repaired /repo by fresh sub-agents that were told which change already existed (so that they produce a different one). `seeded/superseded/C04-r2` lost its only way to manifest to fix 7eb70f1.', '',
       'Round-2 seeds that were missed at first and what was changed: C01-r2 (Figure-8 macro step `fig8`; C04 caught the cause at once), C07-r2 (`staleterm` macro step: a restarted node hears only from a leader',
       'of an older term, and learnt the newer term without voting), C11-r2 (keyword-only calls), C13-r2 (second life: the receiving connection object dies mid-frame and is connected again), C15-r2 (content accessor',
       'depended on a private attribute name - harness error, not a miss of the oracle), C19-r2 (silent-drop oracle: when every queue and pending table is empty each callback-mode call has had its callback),',
       'C04-r2 (led to the genuine finding 7eb70f1 instead: replies carried no term).', '',
       'Seeds that were missed at first and what was changed so that they are caught: C01/C04 (`churn` macro step, match-index monitor),',
       'C09 (own compaction during an incoming transfer, states larger than one file buffer), C13 (well-formed frame with undecodable content),',
       'C12 (raising calls with 0, 2+ and keyword arguments), C15 (heap-sort runs on the priority queue), C14 (stale connection replaced, late FIN/RST on it),',
       'C19 (short sync timeouts followed by further calls of the same thread), C06 (two-pass planning of kill points inside a step).', '',
       'Round 3 = `seeded/<id>-r3/` (20 more, against /repo 6514bf6, again by fresh sub-agents that saw the property text and the summaries of the two earlier changes for that property). First confirmation run: 9 of 20 caught by the check of',
       'their own property (C02, C03, C04, C05, C09, C11, C14, C17 - the latter after version scales had been added the same hour), C18-r3 by C14 (read-only observers over the real transport, added the same hour; C18 runs on the',
       'simulated transport and cannot see a change in TCPTransport), C01-r3 by C07, C19-r3 by C02, C06-r3 and C07-r3 by C08 (both are journal changes; the quick tiers of C06/C07 did not reach the needed',
       'snapshot-install-then-truncate-then-kill history). Missed at first and what was changed: C08-r3 (runs of small appends, so that a head drop keeps several records and fewer bytes than it drops), C10-r3 (repeated membership',
       'requests whose effect is in place: `redundant`, `specsnap2`), C12-r3 (end phase: every node compacts, one more command), C13-r3 (bulk mode: megabytes of incompressible backlog against buffers that fill at powers of two),',
       'C15-r3 (list elements equal by value but not by type; contents compared by type and value), C16-r3 (the reference fold of lock commands choked on an extra field of release(): HARNESS-ERROR instead of a verdict; it now takes',
       'the documented fields and the real-table-vs-reference differential fires), C20-r3 (every 4th C20 case has dynamic membership). C07-r3 (state monitor `term-forgotten-by-restart` in C07). After these changes 20 of 20 are caught by a quick tier (re-run on /repo f910cba: `seeded/round3_reconfirm_f910cba.log`); C06-r3 only through C08.', '',
       '## Hand-written mutants', '', 'See `sensitivity_mutants.md` (generated by `tools/sensitivity.py`).', '']
open(os.path.join(HERE, 'sensitivity.md'), 'w').write('\n'.join(out))
print('rows', len(rows))
