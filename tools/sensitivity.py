#!/venv/bin/python
"""Runs every mutant of tools/mutants.py against the checks expected to catch it (quick tier) and writes
sensitivity.md. tools/sensitivity.py [jobs]"""
import os, subprocess, sys, time, json
from concurrent.futures import ThreadPoolExecutor
HERE = os.path.dirname(os.path.dirname(os.path.abspath(__file__)))
sys.path.insert(0, os.path.join(HERE, 'tools'))
from mutants import MUTANTS

MAP = {
 'commit-on-partial-snapshot': ['C01', 'C04'], 'commit-any-term': ['C04', 'C01'], 'majority-ge': ['C04'], 'match-overwrite': ['C04'],
 'vote-twice': ['C03', 'C01'], 'vote-no-uptodate': ['C03', 'C04'], 'success-any-term': ['C02'], 'snapshot-off-by-one': ['C09', 'C01'],
 'fallback-never': ['C20'], 'no-stepdown-on-vote-term': ['C04', 'C03'], 'chunk-finish-cmdlen': ['C11'], 'journal-single-doubling': ['C08', 'C11'],
 'chunk-drop-kwargs': ['C11'], 'recv-transmission-not-reset': ['C11'], 'apply-raise-propagates': ['C12'], 'apply-raise-skips-callback': ['C12'],
 'dict-pop-default-ignored': ['C15'], 'list-sort-ignores-reverse': ['C15'], 'queue-get-right': ['C15'], 'pqueue-full-off-by-one': ['C15'],
 'list-pop-default-none': ['C15'], 'consumer-deserialize-skips': ['C15', 'C09'], 'journal-header-first': ['C08', 'C06'], 'journal-meta-in-place': ['C08'],
 'journal-taildrop-offbyone': ['C08'], 'journal-reopen-le': ['C08'], 'journal-term-32bit': ['C08'], 'fallback-counts-half': ['C20'],
 'fallback-any-message': ['C20'], 'quorum-counts-self-twice': ['C20'], 'quorum-ge': ['C20'], 'commit-counts-readonly': ['C18'],
 'readonly-votes': ['C18'], 'readonly-connected-counts-for-election': ['C18'], 'readonly-nextindex-missing': ['C18', 'C05'],
 'no-nextindex-reset': ['C05'], 'queue-not-drained-follower': ['C05'], 'election-deadline-not-reset-on-ae': ['C05'], 'snapshot-offset-not-restarted': ['C05', 'C09'],
 'stale-leader-pointer': ['C05'], 'membership-gate-open': ['C10'], 'membership-no-rollback': ['C10'], 'membership-noop-gate-removed': ['C10'],
 'membership-snapshot-ignores-cluster': ['C10'], 'membership-remove-keeps-match': ['C10'], 'tcp-readbuffer-not-advanced': ['C13'], 'tcp-length-unsigned-recv': ['C13'],
 'tcp-partial-send-drops-tail': ['C13'], 'tcp-parse-error-ignored': ['C13'], 'tcp-short-header-wait': ['C13'], 'tcp-read-once': ['C13'],
 'lock-isacquired-no-expiry': ['C16'], 'lock-acquire-steals': ['C16'], 'lock-release-anyone': ['C16'], 'lock-late-check-removed': ['C16'], 'lock-prolong-all': ['C16'],
 'journal-headdrop-inplace': ['C08', 'C06'], 'dump-load-clears-untrimmed-journal': ['C06'], 'meta-commit-ahead': ['C06'], 'restart-applied-from-commit': ['C06'],
 'snapshot-consumers-swapped': ['C09'], 'snapshot-applied-index-plus-one': ['C09'], 'snapshot-rename-before-write': ['C09'], 'snapshot-transfer-skips-first-chunk-check': ['C09'],
 'snapshot-version-not-saved': ['C09', 'C17'], 'compaction-trims-one-too-many': ['C06', 'C09', 'C01'], 'transport-unknown-peer-accepted': ['C14'], 'transport-no-reconnect': ['C14'],
 'transport-dropnode-keeps-address': ['C14'], 'transport-wrong-sender': ['C14'], 'tcp-no-read-timeout': ['C14'], 'transport-send-true-when-connecting': ['C14'],
 'sync-shared-result': ['C19'], 'queue-drops-when-busy': ['C19'], 'callback-on-queue-full-and-enqueue': ['C19', 'C02'], 'forwarded-reply-wrong-request': ['C19', 'C02'],
 'backoff-no-truncate': ['C05'],
 'reqid-not-unique': ['C06'], 'journal-after-older-dump-cleared': ['C06'], 'transfer-not-cancelled-on-connect': ['C09'], 'transfer-not-cancelled-on-disconnect': ['C09', 'C01'], 'snapshot-pieces-not-acknowledged': ['C05'], 'transfer-continued-across-terms': ['C01', 'C09'], 'reply-term-ignored': ['C04', 'C01'], 'snapshot-speculative-members': ['C10'], 'truncate-always': ['C04', 'C18'], 'snapshot-install-clears-log': ['C04', 'C01'], 'snapshot-failed-load-acked': ['C04', 'C09'],
}

# mutants judged NOT to break any listed property (kept in the table for honesty: "not detected" is the right answer)
BENIGN = {
 'readonly-votes': 'voters never send request_vote to observers, the branch is unreachable',
 'readonly-nextindex-missing': 'the observer keeps the nextIndex it got when it connected (lower, therefore safe); only re-sends',
 'match-overwrite': 'matchIndex can only become smaller than the truth: commits are delayed, never unsafe',
 'queue-not-drained-follower': 'one forwarded command per tick instead of all: slower, same outcome',
 'stale-leader-pointer': 'a candidate keeps naming the old leader until the election ends; no listed property speaks about it',
 'tcp-length-unsigned-recv': 'a negative length is read as a huge one: the receiver waits instead of disconnecting, which C13 allows (nothing further is delivered)',
 'transfer-not-cancelled-on-disconnect': 'covered by the restart on every new connection and by the lazy cancel in the next append_entries round',
 'snapshot-failed-load-acked': 'a load can fail only on a damaged snapshot, and since c3244f6/607c98b/78ef7bc transfers cannot assemble one any more: the reverted guard is unreachable in the simulator',
 'snapshot-offset-not-restarted': 'the receiver drops chunks that do not continue its buffer and the sender starts over after the last chunk: slower, same outcome',
 'snapshot-transfer-skips-first-chunk-check': 'with FIFO connections a non-first chunk never meets an empty buffer (the sender restarts at the first chunk after every disconnect)',
}


def run(m):
    checks = MAP.get(m, [])
    if not checks:
        return m, []
    r = subprocess.run([os.path.join(HERE, 'tools', 'mut.py'), m] + checks, capture_output=True, text=True, timeout=7200)
    out = []
    for line in r.stdout.splitlines():
        parts = line.split()
        if len(parts) >= 3 and parts[0] == m and parts[2].startswith('exit='):
            sig = ''
            if 'signature:' in line:
                sig = line.split('signature:')[1].split('|')[0].strip()
            out.append((parts[1], parts[2], parts[3], sig))
    return m, out

def main():
    jobs = int(sys.argv[1]) if len(sys.argv) > 1 else 3
    only = sys.argv[2:]
    t0 = time.time()
    with ThreadPoolExecutor(jobs) as ex:
        results = list(ex.map(run, only or list(MUTANTS)))
    if only:
        # re-run of a few mutants: replace their rows in the existing table
        path = os.path.join(HERE, 'sensitivity_mutants.md')
        old = open(path).read().split('\n')
        keep = [l for l in old if not any(l.startswith('| %s |' % m) for m in only)]
        rows = []
        for m, out in results:
            for c, ex_, t, sig in out:
                res = 'DETECTED' if ex_ == 'exit=1' else ('not detected' if ex_ == 'exit=0' else ex_)
                if ex_ == 'exit=0' and m in BENIGN:
                    res = 'not detected - judged benign: ' + BENIGN[m]
                rows.append('| %s | %s | %s | %s (%s) | %s |' % (m, MUTANTS[m]['why'], c, res, t, sig))
        last = max(i for i, l in enumerate(keep) if l.startswith('| '))
        keep[last + 1:last + 1] = rows
        body = [l for l in keep if not l.startswith('%d of' % 0) and ' pairs detected in the quick tier' not in l]
        tab = [l for l in body if l.startswith('| ') and not l.startswith('| mutant') and not l.startswith('|---')]
        det = sum(1 for l in tab if '| DETECTED' in l)
        body += ['%d of %d (mutant, check) pairs detected in the quick tier (rows of %s re-run separately).' % (det, len(tab), ', '.join(only)), '']
        open(path, 'w').write('\n'.join(body))
        print('\n'.join(rows))
        return
    lines = ['# Sensitivity: deliberate breakages vs. quick-tier checks', '',
             'Generated by tools/sensitivity.py (each mutant applied to a scratch copy of /repo/pysyncobj under /tmp, removed afterwards; quick tier, VERIF_SEED default).',
             'exit=1 means the check reported a VIOLATION (detected), exit=0 not detected in the quick tier.', '',
             '| mutant | what it breaks | check | result | signature |', '|---|---|---|---|---|']
    det = tot = 0
    for m, out in results:
        for c, ex_, t, sig in out:
            tot += 1
            det += ex_ == 'exit=1'
            res = 'DETECTED' if ex_ == 'exit=1' else ('not detected' if ex_ == 'exit=0' else ex_)
            if ex_ == 'exit=0' and m in BENIGN:
                res = 'not detected - judged benign: ' + BENIGN[m]
            lines.append('| %s | %s | %s | %s (%s) | %s |' % (m, MUTANTS[m]['why'], c, res, t, sig))
    lines += ['', '%d of %d (mutant, check) pairs detected in the quick tier; wall %.0f s.' % (det, tot, time.time() - t0), '']
    open(os.path.join(HERE, 'sensitivity_mutants.md'), 'w').write('\n'.join(lines))
    print('\n'.join(lines[-3:]))

if __name__ == '__main__':
    main()
