#!/venv/bin/python
"""Regenerates MANIFEST.json from the table below (single source of truth)."""
import json, os, sys
HERE = os.path.dirname(os.path.abspath(__file__))

SETUP = ("/venv/bin/python -c 'import hypothesis' 2>/dev/null || "
         "/venv/bin/pip install -q --no-index --find-links /opt/veriftools/wheels hypothesis; "
         "/venv/bin/pip install -q --no-index --find-links /opt/veriftools/wheels --target /verif/.deps atheris >/dev/null 2>&1 || true; "
         "/venv/bin/python -c 'import hypothesis, sys; sys.path.insert(0, \"/repo\"); import pysyncobj; print(\"setup ok\", hypothesis.__version__)'")

CHECKS = {}   # filled from pvf/props/*.py META dicts
NOT_BUILT = {}

def main():
    sys.path.insert(0, HERE)
    props = [json.loads(l) for l in open(os.path.join(HERE, 'properties.jsonl'))]
    checks, na = [], []
    for p in props:
        pid = p['id']
        modpath = os.path.join(HERE, 'pvf', 'props', pid.lower() + '.py')
        meta = None
        if os.path.exists(modpath):
            src = open(modpath).read()
            ns = {}
            # META is a literal dict at module level named MANIFEST
            import ast
            tree = ast.parse(src)
            for node in tree.body:
                if isinstance(node, ast.Assign) and getattr(node.targets[0], 'id', None) == 'MANIFEST':
                    meta = ast.literal_eval(node.value)
        if meta is None:
            na.append({'property_id': pid, 'reason': 'check not built yet (work in progress; see DESIGN.md section 3 for the plan)'})
            continue
        if meta.get('not_applicable'):
            na.append({'property_id': pid, 'reason': meta['not_applicable']})
            continue
        checks.append({
            'property_id': pid,
            'quick_cmd': './check %s --tier quick' % pid,
            'thorough_cmd': './check %s --tier thorough' % pid,
            'evidence_file': 'evidence/%s.json' % pid,
            'replay_cmd_template': './check %s --replay {path}' % pid,
            'engine': meta['engine'],
            'level_claimed': {'category': meta['level'], 'text': meta['text'], 'design_ref': meta.get('design_ref', 'DESIGN.md section 3, ' + pid)},
            'level_note': meta['note'],
            'technique': meta['technique'],
        })
    man = {
        'version': 1,
        'setup_cmd': SETUP,
        'hooks': {
            'guard': 'PYSYNCOBJ_VERIF',
            'enable': 'no hooks exist: every seam (transport class, clock, random, poller, sockets, storage primitives) is taken over from harness code; checks set PYSYNCOBJ_VERIF=1 anyway and import pysyncobj from /repo',
            'baseline_off_cmd': 'cd /repo && /venv/bin/python -m pytest -ra -q -p no:cacheprovider --timeout=900 --continue-on-collection-errors',
            'source_commits': [],
            'add_only': True,
        },
        'engines': [
            {'name': 'E1-sim', 'path': 'pvf/sim', 'serves_properties': ['C01', 'C02', 'C03', 'C04', 'C05', 'C06', 'C07', 'C09', 'C10', 'C11', 'C12', 'C16', 'C17', 'C18', 'C20'], 'kind_free_text': 'deterministic Raft cluster simulator over real SyncObj objects (virtual clocks, simulated transport), driven by Hypothesis-generated step lists'},
            {'name': 'E2-storage', 'path': 'pvf/props/c08.py', 'serves_properties': ['C06', 'C08', 'C09'], 'kind_free_text': 'storage primitive wrappers with kill-point enumeration (real fork/_exit)'},
            {'name': 'E3-sock', 'path': 'pvf/sock', 'serves_properties': ['C13', 'C14'], 'kind_free_text': 'fake socket module + kernel model + poller under virtual time'},
            {'name': 'E4-model', 'path': 'pvf/props', 'serves_properties': ['C08', 'C15', 'C17'], 'kind_free_text': 'model-based Hypothesis op-sequence machines'},
        ],
        'checks': checks,
        'not_applicable': na,
        'notes': 'Technique family: property-based testing and fuzzing (Hypothesis-generated inputs/op sequences/schedules/fault points against explicit oracles). Exit 2 = harness error.',
    }
    with open(os.path.join(HERE, 'MANIFEST.json'), 'w') as f:
        json.dump(man, f, indent=1)
    print('checks: %d, not_applicable: %d' % (len(checks), len(na)))

if __name__ == '__main__':
    main()
